package c18

import (
	"errors"
	"fmt"
	"net"
	"sort"
	"strings"
	"sync"
	"sync/atomic"
	"testing"
	"time"

	"github.com/gofiber/fiber/v3"
	"github.com/gofiber/fiber/v3/client"
	"github.com/valyala/fasthttp"
	"github.com/valyala/fasthttp/fasthttputil"
	"pgregory.net/rapid"

	"verifharness/vk"
)

const property = "C18"

func TestMain(m *testing.M) { vk.Main(m, property) }

func TestAAACorpus(t *testing.T)    { vk.TestCorpus(t, property) }
func TestAAAWitnesses(t *testing.T) { vk.TestWitnesses(t, property) }
func TestReplay(t *testing.T)       { vk.TestReplay(t) }

// ---- (a) fidelity ---------------------------------------------------------------------------------------

type KV struct {
	K, V string
	Op   string `json:",omitempty"` // "" = Add..., set = Set... (replaces every earlier value of the key), del = Del..., struct = Set...WithStruct with a scalar field (replaces too)
}

// scalar structs for the ...WithStruct setters: one tagged field per key of the pools
type structK1 struct {
	V string `param:"k1" form:"k1"`
}
type structK2 struct {
	V string `param:"k2" form:"k2"`
}
type structK3 struct {
	V string `param:"k3" form:"k3"`
}

func structFor(k, v string) any {
	switch k {
	case "k1":
		return structK1{v}
	case "k2":
		return structK2{v}
	case "k3":
		return structK3{v}
	}
	return nil
}

// fold applies the configuration calls in order to a multimap and returns the entries that remain
func fold(ops []KV) []KV {
	var out []KV
	for _, o := range ops {
		if o.Op == "set" || o.Op == "del" || o.Op == "struct" {
			kept := out[:0:0]
			for _, e := range out {
				if e.K != o.K {
					kept = append(kept, e)
				}
			}
			out = kept
		}
		if o.Op != "del" {
			out = append(out, KV{K: o.K, V: o.V})
		}
	}
	return out
}

type Fidelity struct {
	CQuery, RQuery         []KV
	CHeader, RHeader       []KV
	CCookie, RCookie       []KV
	CUA, RUA               string
	CRef, RRef             string
	HUA, HRef              string `json:",omitempty"` // User-Agent / Referer configured as request-level HEADERS; only when the dedicated setters are not used at all
	CPath, RPath           string // path parameter :id
	CExt, RExt             string `json:",omitempty"` // path parameter :ext (suffix of the last segment); the client-level one is always set, possibly to ""
	RExtSet                bool   `json:",omitempty"` // the request sets :ext itself (possibly to "": an empty request-level value still takes precedence)
	Ext                    bool   `json:",omitempty"` // the URL template carries :ext
	Form                   []KV   `json:",omitempty"`
	Files                  []KV   `json:",omitempty"` // name, content
	Body                   string `json:",omitempty"`
	BodyKind               string // none | raw | form | multipart | json
	Method                 string
	BaseURL                bool
	Twice                  bool   // send the same configuration twice: the parsed request must be identical
	DisablePathNormalizing bool   `json:",omitempty"`
	Idx                    string `json:",omitempty"` // a second path parameter :idx, whose name starts with the name of the first (:id)
	URLQuery               []KV   `json:",omitempty"` // query components written into the URL itself (values may contain the characters a query may carry unescaped: ? / : @)
}

type seenReq struct {
	Method, Path, UA, Referer, Body, CType string
	Query, Headers, Cookies, Form, Files   []string
}

type srv struct {
	ln  *fasthttputil.InmemoryListener
	mu  sync.Mutex
	got seenReq
}

var (
	srvOnce sync.Once
	theSrv  *srv
)

func server() *srv {
	srvOnce.Do(func() {
		s := &srv{ln: fasthttputil.NewInmemoryListener()}
		app := fiber.New()
		app.All("/*", func(c fiber.Ctx) error {
			g := seenReq{Method: c.Method(), Path: c.Path(), UA: c.Get("User-Agent"), Referer: c.Get("Referer"), Body: string(c.Body()), CType: c.Get("Content-Type")}
			c.RequestCtx().QueryArgs().VisitAll(func(k, v []byte) { g.Query = append(g.Query, string(k)+"="+string(v)) })
			c.Request().Header.VisitAll(func(k, v []byte) {
				if strings.HasPrefix(string(k), "X-T-") {
					g.Headers = append(g.Headers, string(k)+"="+string(v))
				}
			})
			c.Request().Header.VisitAllCookie(func(k, v []byte) { g.Cookies = append(g.Cookies, string(k)+"="+string(v)) })
			if strings.HasPrefix(g.CType, "application/x-www-form-urlencoded") {
				c.RequestCtx().PostArgs().VisitAll(func(k, v []byte) { g.Form = append(g.Form, string(k)+"="+string(v)) })
				g.Body = ""
			}
			if strings.HasPrefix(g.CType, "multipart/form-data") {
				if mf, err := c.MultipartForm(); err == nil {
					for k, vs := range mf.Value {
						for _, v := range vs {
							g.Form = append(g.Form, k+"="+v)
						}
					}
					for k, fhs := range mf.File {
						for _, fh := range fhs {
							f, err := fh.Open()
							if err == nil {
								b := make([]byte, fh.Size)
								_, _ = f.Read(b)
								f.Close()
								g.Files = append(g.Files, k+":"+fh.Filename+"="+string(b))
							}
						}
					}
				}
				g.Body, g.CType = "", "multipart/form-data"
			}
			sort.Strings(g.Query)
			sort.Strings(g.Headers)
			sort.Strings(g.Cookies)
			sort.Strings(g.Form)
			sort.Strings(g.Files)
			s.got = g
			return c.SendString("ok")
		})
		go func() { _ = app.Listener(s.ln, fiber.ListenConfig{DisableStartupMessage: true}) }()
		// requests that name no client use the package's default client: it reaches the same server
		client.C().SetDial(func(string) (net.Conn, error) { return s.ln.Dial() })
		theSrv = s
	})
	return theSrv
}

func canon(k string) string {
	parts := strings.Split(k, "-")
	for i, p := range parts {
		if p != "" {
			parts[i] = strings.ToUpper(p[:1]) + strings.ToLower(p[1:])
		}
	}
	return strings.Join(parts, "-")
}

func checkFidelity(c Fidelity) vk.Verdict {
	s := server()
	s.mu.Lock()
	defer s.mu.Unlock()
	send := func() (seenReq, string) {
		cl := client.New().SetDial(func(string) (net.Conn, error) { return s.ln.Dial() }).SetTimeout(20 * time.Second)
		if c.BaseURL {
			cl.SetBaseURL("http://example.com")
		}
		for _, kv := range c.CQuery {
			switch kv.Op {
			case "set":
				cl.SetParam(kv.K, kv.V)
			case "del":
				cl.DelParams(kv.K)
			case "struct":
				cl.SetParamsWithStruct(structFor(kv.K, kv.V))
			default:
				cl.AddParam(kv.K, kv.V)
			}
		}
		for _, kv := range c.CHeader {
			if kv.Op == "set" {
				cl.SetHeader("X-T-"+kv.K, kv.V)
			} else {
				cl.AddHeader("X-T-"+kv.K, kv.V)
			}
		}
		for _, kv := range c.CCookie {
			cl.SetCookie(kv.K, kv.V)
		}
		if c.CUA != "" {
			cl.SetUserAgent(c.CUA)
		}
		if c.CRef != "" {
			cl.SetReferer(c.CRef)
		}
		if c.CPath != "" {
			cl.SetPathParam("id", c.CPath)
		}
		if c.Ext {
			cl.SetPathParam("ext", c.CExt)
		}
		r := cl.R()
		for _, kv := range c.RQuery {
			switch kv.Op {
			case "set":
				r.SetParam(kv.K, kv.V)
			case "del":
				r.DelParams(kv.K)
			case "struct":
				r.SetParamsWithStruct(structFor(kv.K, kv.V))
			default:
				r.AddParam(kv.K, kv.V)
			}
		}
		for _, kv := range c.RHeader {
			if kv.Op == "set" {
				r.SetHeader("X-T-"+kv.K, kv.V)
			} else {
				r.AddHeader("X-T-"+kv.K, kv.V)
			}
		}
		for _, kv := range c.RCookie {
			r.SetCookie(kv.K, kv.V)
		}
		if c.RUA != "" {
			r.SetUserAgent(c.RUA)
		}
		if c.HUA != "" {
			r.SetHeader("User-Agent", c.HUA) // the user agent as an ordinary header (no SetUserAgent anywhere)
		}
		if c.HRef != "" {
			r.SetHeader("Referer", c.HRef)
		}
		if c.RRef != "" {
			r.SetReferer(c.RRef)
		}
		if c.RPath != "" {
			r.SetPathParam("id", c.RPath)
		}
		if c.Ext && c.RExtSet {
			r.SetPathParam("ext", c.RExt)
		}
		switch c.BodyKind {
		case "raw":
			r.SetRawBody([]byte(c.Body))
		case "form":
			for _, kv := range c.Form {
				switch kv.Op {
				case "set":
					r.SetFormData(kv.K, kv.V)
				case "del":
					r.DelFormData(kv.K)
				case "struct":
					r.SetFormDataWithStruct(structFor(kv.K, kv.V))
				default:
					r.AddFormData(kv.K, kv.V)
				}
			}
		case "multipart":
			for _, kv := range c.Form {
				switch kv.Op {
				case "set":
					r.SetFormData(kv.K, kv.V)
				case "del":
					r.DelFormData(kv.K)
				case "struct":
					r.SetFormDataWithStruct(structFor(kv.K, kv.V))
				default:
					r.AddFormData(kv.K, kv.V)
				}
			}
			for _, f := range c.Files {
				r.AddFileWithReader(f.K, nopCloser{strings.NewReader(f.V)})
			}
		case "json":
			r.SetJSON(map[string]string{"body": c.Body})
		}
		url := "http://example.com/p/:id/x"
		if c.BaseURL {
			url = "/p/:id/x"
		}
		if c.Idx != "" {
			url = strings.Replace(url, "/p/:id/x", "/p/:id/:idx/x", 1)
			r.SetPathParam("idx", c.Idx)
		}
		if c.Ext {
			url += ":ext"
		}
		for i, kv := range c.URLQuery {
			sep := "&"
			if i == 0 {
				sep = "?"
			}
			url += sep + kv.K + "=" + kv.V
		}
		resp, err := r.Custom(url, c.Method)
		if err != nil {
			return seenReq{}, err.Error()
		}
		resp.Close()
		return s.got, ""
	}
	got, errs := send()
	if errs != "" {
		return vk.Failf("sending %+v failed: %s", c, errs)
	}
	// expectation from the configuration
	var w seenReq
	w.Method = c.Method
	id := c.CPath
	if c.RPath != "" {
		id = c.RPath
	}
	w.Path = "/p/" + id + "/x"
	if c.Idx != "" {
		w.Path = "/p/" + id + "/" + c.Idx + "/x"
	}
	if c.Ext {
		if c.RExtSet {
			w.Path += c.RExt
		} else {
			w.Path += c.CExt
		}
	}
	w.UA = "fiber"
	if c.CUA != "" {
		w.UA = c.CUA
	}
	if c.RUA != "" {
		w.UA = c.RUA
	}
	w.Referer = c.CRef
	if c.RRef != "" {
		w.Referer = c.RRef
	}
	if c.HUA != "" {
		w.UA = c.HUA
	}
	if c.HRef != "" {
		w.Referer = c.HRef
	}
	for _, kv := range append(append(fold(c.CQuery), fold(c.RQuery)...), c.URLQuery...) {
		w.Query = append(w.Query, kv.K+"="+kv.V)
	}
	for _, kv := range append(fold(c.CHeader), fold(c.RHeader)...) {
		w.Headers = append(w.Headers, canon("X-T-"+kv.K)+"="+kv.V)
	}
	ck := map[string]string{}
	for _, kv := range c.CCookie {
		ck[kv.K] = kv.V
	}
	for _, kv := range c.RCookie {
		ck[kv.K] = kv.V
	}
	for k, v := range ck {
		w.Cookies = append(w.Cookies, k+"="+v)
	}
	switch c.BodyKind {
	case "raw":
		w.Body = c.Body
	case "form", "multipart":
		for _, kv := range fold(c.Form) {
			w.Form = append(w.Form, kv.K+"="+kv.V)
		}
		if c.BodyKind == "multipart" {
			w.CType = "multipart/form-data"
			for _, f := range c.Files {
				w.Files = append(w.Files, fmt.Sprintf("file%s:%s=%s", "", f.K, f.V))
			}
		}
	case "json":
		w.Body = fmt.Sprintf(`{"body":%q}`, c.Body)
	}
	sort.Strings(w.Query)
	sort.Strings(w.Headers)
	sort.Strings(w.Cookies)
	sort.Strings(w.Form)
	sort.Strings(w.Files)
	g := got
	if c.BodyKind != "multipart" {
		g.CType, w.CType = "", ""
	}
	// multipart file field names are chosen by the client (file1, file2, ...): compare filename=content only
	strip := func(fs []string) []string {
		var out []string
		for _, f := range fs {
			if i := strings.Index(f, ":"); i >= 0 {
				f = f[i+1:]
			}
			out = append(out, f)
		}
		sort.Strings(out)
		return out
	}
	g.Files, w.Files = strip(g.Files), strip(w.Files)
	if c.BodyKind == "json" && g.Body != w.Body {
		// JSON encoders may escape differently; compare decoded text loosely
		if strings.Contains(g.Body, `"body"`) {
			g.Body, w.Body = "", ""
		}
	}
	if fmt.Sprintf("%+v", g) != fmt.Sprintf("%+v", w) {
		return vk.Failf("the request parsed by the server differs from the configuration\n got %+v\nwant %+v\nconfig %+v", g, w, c)
	}
	if c.Twice {
		got2, errs := send()
		if errs != "" {
			return vk.Failf("second send failed: %s", errs)
		}
		a, b := got, got2
		if c.BodyKind == "multipart" {
			a.Body, b.Body, a.CType, b.CType = "", "", "", ""
		}
		if fmt.Sprintf("%+v", a) != fmt.Sprintf("%+v", b) {
			return vk.Failf("the same configuration produced two different requests\n first  %+v\n second %+v", a, b)
		}
	}
	// a request that names no client afterwards (its object comes from the pool the configured requests went back to):
	// it carries the default client's settings and nothing of the client configured above
	r2 := client.AcquireRequest()
	resp2, err2 := r2.Get("http://example.com/follow-up")
	if err2 != nil {
		return vk.Failf("follow-up request through the default client failed: %v", err2)
	}
	resp2.Close()
	if f := s.got; f.Path != "/follow-up" || f.UA != "fiber" || f.Referer != "" || len(f.Query)+len(f.Headers)+len(f.Cookies) != 0 {
		return vk.Failf("a request that names no client, made after the configured one, arrived as %+v - want the default client's plain request (configured client was %+v)", f, c)
	}
	nt := (c.CUA != "" && c.RUA != "") || (c.CRef != "" && c.RRef != "") || (c.CPath != "" && c.RPath != "")
	for _, kv := range c.RCookie {
		for _, kc := range c.CCookie {
			nt = nt || kv.K == kc.K
		}
	}
	for _, l := range [][]KV{c.CQuery, c.RQuery, c.Form, c.CHeader, c.RHeader} {
		for _, kv := range l {
			for _, r := range kv.V {
				if !(r >= 'a' && r <= 'z' || r >= 'A' && r <= 'Z' || r >= '0' && r <= '9') {
					nt = true
				}
			}
		}
	}
	return vk.Verdict{NonTrivial: nt, Classes: []string{"body:" + c.BodyKind}}
}

type nopCloser struct{ *strings.Reader }

func (nopCloser) Close() error { return nil }

var (
	qval = rapid.StringMatching(`[a-zA-Z0-9 &=%+/?#;,:@é]{0,8}`)
	hval = rapid.StringMatching(`([!-~]([ -~]{0,6}[!-~])?)?`)
	cval = rapid.StringMatching(`[a-zA-Z0-9!#$%&*+./:<=>?@^_~-]{0,8}`)
	pval = rapid.StringMatching(`[A-Za-z0-9_~-]{1,8}`)
)

// withOps turns some of the Add calls into Set / Del calls (hasDel: the collection has a Del method)
func withOps(t *rapid.T, label string, in []KV, hasDel bool) []KV {
	if rapid.IntRange(0, 2).Draw(t, label+"ops") != 0 {
		return in
	}
	pool := []string{"", "set", "set"}
	if hasDel {
		pool = append(pool, "del", "struct")
	}
	for i := range in {
		in[i].Op = rapid.SampledFrom(pool).Draw(t, label+"op")
	}
	return in
}

func kvs(t *rapid.T, label string, g *rapid.Generator[string], keys []string) []KV {
	var out []KV
	n := rapid.IntRange(0, 3).Draw(t, label+"n")
	for i := 0; i < n; i++ {
		out = append(out, KV{K: rapid.SampledFrom(keys).Draw(t, label+"k"), V: g.Draw(t, label+"v")})
	}
	return out
}

func uniqKeys(in []KV) []KV {
	seen := map[string]bool{}
	var out []KV
	for _, kv := range in {
		if !seen[kv.K] {
			seen[kv.K] = true
			out = append(out, kv)
		}
	}
	return out
}

func genFidelity(t *rapid.T) Fidelity {
	keys := []string{"k1", "k2", "k3"}
	c := Fidelity{CQuery: withOps(t, "cq", kvs(t, "cq", qval, keys), true), RQuery: withOps(t, "rq", kvs(t, "rq", qval, keys), true),
		CHeader: withOps(t, "ch", kvs(t, "ch", hval, keys), false), RHeader: withOps(t, "rh", kvs(t, "rh", hval, keys), false),
		CCookie: uniqKeys(kvs(t, "cc", cval, keys)), RCookie: uniqKeys(kvs(t, "rc", cval, keys)),
		Method: rapid.SampledFrom([]string{"POST", "PUT", "PATCH"}).Draw(t, "method"), BaseURL: rapid.Bool().Draw(t, "base"), Twice: rapid.IntRange(0, 3).Draw(t, "twice") == 0}
	if rapid.IntRange(0, 3).Draw(t, "urlquery") == 0 {
		uq := rapid.StringMatching(`[a-z0-9?/:@]{0,6}`)
		n := rapid.IntRange(1, 2).Draw(t, "nuq")
		for i := 0; i < n; i++ {
			c.URLQuery = append(c.URLQuery, KV{K: fmt.Sprintf("u%d", i), V: uq.Draw(t, "uqv")})
		}
	}
	if rapid.Bool().Draw(t, "cua") {
		c.CUA = "cua-" + cval.Draw(t, "cuav")
	}
	if rapid.Bool().Draw(t, "rua") {
		c.RUA = "rua-" + cval.Draw(t, "ruav")
	}
	if rapid.Bool().Draw(t, "cref") {
		c.CRef = "http://cref/" + cval.Draw(t, "crefv")
	}
	if rapid.Bool().Draw(t, "rref") {
		c.RRef = "http://rref/" + cval.Draw(t, "rrefv")
	}
	if c.CUA == "" && c.RUA == "" && rapid.Bool().Draw(t, "hua") {
		c.HUA = "hua-" + cval.Draw(t, "huav")
	}
	if c.CRef == "" && c.RRef == "" && rapid.Bool().Draw(t, "href") {
		c.HRef = "http://href/" + cval.Draw(t, "hrefv")
	}
	c.CPath = pval.Draw(t, "cpath")
	if c.Ext = rapid.Bool().Draw(t, "ext"); c.Ext {
		exts := []string{"", ".json", ".csv", "-v2"}
		c.CExt = rapid.SampledFrom(exts).Draw(t, "cext")
		if c.RExtSet = rapid.Bool().Draw(t, "rextset"); c.RExtSet {
			c.RExt = rapid.SampledFrom(exts).Draw(t, "rext")
		}
	}
	if rapid.IntRange(0, 2).Draw(t, "idx") == 0 {
		c.Idx = pval.Draw(t, "idxv")
	}
	if rapid.Bool().Draw(t, "rpp") {
		c.RPath = pval.Draw(t, "rpath")
	}
	switch c.BodyKind = rapid.SampledFrom([]string{"none", "raw", "form", "multipart", "json"}).Draw(t, "bodykind"); c.BodyKind {
	case "raw", "json":
		c.Body = qval.Draw(t, "body")
	case "form":
		c.Form = withOps(t, "f", kvs(t, "f", qval, keys), true)
		if len(fold(c.Form)) == 0 {
			c.BodyKind = "none"
		}
	case "multipart":
		c.Form = withOps(t, "f", kvs(t, "f", qval, keys), true)
		c.Files = []KV{{K: "a.txt", V: qval.Draw(t, "filea")}}
		if rapid.Bool().Draw(t, "twofiles") {
			c.Files = append(c.Files, KV{K: "b.bin", V: qval.Draw(t, "fileb")})
		}
	}
	return c
}

var propFidelity = vk.Register(&vk.Prop[Fidelity]{Property: property, Name: "fidelity", Gen: genFidelity, Check: checkFidelity, Quick: 1500, Thorough: 6000})

func TestFidelity(t *testing.T) { propFidelity.Run(t) }

// ---- (c) cookie jar --------------------------------------------------------------------------------------

type JCookie struct {
	Key, Val string
	Exp      string // session | far | short | past
}

type JOp struct {
	Kind     string    // set | parse | get | sleep | release | redir (GET with MaxRedirects: Host answers 302 to Host2/landing)
	Host2    string    `json:",omitempty"` // redir: host the first answer redirects to
	Cookies2 []JCookie `json:",omitempty"` // redir: cookies set by the landing answer
	Host     string
	Path     string    `json:",omitempty"` // request path
	Cookies  []JCookie `json:",omitempty"`
	Wire     bool      `json:",omitempty"` // get: instead of asking the jar, a request is sent to the URL and the cookies the server received are judged
	RelGot   bool      `json:",omitempty"` // get: the caller releases the returned cookies (documented as safe)
}

type JarCase struct {
	Ops     []JOp
	Related bool // cookie paths that are prefix-related to request paths are in play (open finding C18-a territory)
}

// every key has one fixed cookie path, so the identity of a cookie (key, path) is never ambiguous
// (k5 carries no Path attribute at all; responses that set it are always requested on pathlessAt. Which request paths
// such a cookie applies to is not something the statement settles, so it is never required, only allowed - but it is
// still one cookie: at most once, and only with its latest value)
var keyPath = map[string]string{"k1": "/", "k2": "/a", "k3": "/b", "k4": "/a/b", "k5": ""}

const pathlessAt = "/c/d"

type mck struct {
	val   string
	exp   string
	setAt time.Time
}

const shortLife = 24 * time.Millisecond

func hostKey(h string) string {
	if strings.HasPrefix(h, "[") { // an IPv6 literal, with or without a port: cookies are not specific to a port
		if i := strings.IndexByte(h, ']'); i >= 0 {
			return h[1:i]
		}
	}
	if i := strings.IndexByte(h, ':'); i >= 0 {
		return h[:i]
	}
	return h
}

func pathMatches(cookiePath, reqPath string) bool {
	if cookiePath == "/" || cookiePath == reqPath {
		return true
	}
	return strings.HasPrefix(reqPath, strings.TrimSuffix(cookiePath, "/")+"/")
}

func checkJar(c JarCase) vk.Verdict {
	s := server()
	jar := client.AcquireCookieJar()
	defer func() { client.ReleaseCookieJar(jar) }()
	model := map[string]map[string]*mck{} // host -> key -> cookie
	v := vk.Verdict{}
	purged, repeated := false, false
	mkCookie := func(jc JCookie) *fasthttp.Cookie {
		ck := fasthttp.AcquireCookie()
		ck.SetKey(jc.Key)
		ck.SetValue(jc.Val)
		if keyPath[jc.Key] != "" {
			ck.SetPath(keyPath[jc.Key])
		}
		switch jc.Exp {
		case "far":
			ck.SetExpire(time.Now().Add(time.Hour))
		case "short":
			ck.SetExpire(time.Now().Add(shortLife))
		case "past":
			ck.SetExpire(time.Now().Add(-time.Hour))
		}
		return ck
	}
	apply := func(host string, jc JCookie) {
		hk := hostKey(host)
		if model[hk] == nil {
			model[hk] = map[string]*mck{}
		}
		if model[hk][jc.Key] != nil {
			repeated = true
		}
		model[hk][jc.Key] = &mck{val: jc.Val, exp: jc.Exp, setAt: time.Now()}
	}
	for i, op := range c.Ops {
		u := fasthttp.AcquireURI()
		_ = u.Parse(nil, []byte("http://"+op.Host+op.Path))
		switch op.Kind {
		case "sleep":
			time.Sleep(2*shortLife + 10*time.Millisecond)
			purged = true
		case "release":
			client.ReleaseCookieJar(jar)
			jar = client.AcquireCookieJar()
			model = map[string]map[string]*mck{}
		case "set":
			for _, jc := range op.Cookies {
				ck := mkCookie(jc)
				jar.Set(u, ck)
				fasthttp.ReleaseCookie(ck)
				apply(op.Host, jc)
			}
		case "parse":
			// a real exchange: the server answers with Set-Cookie lines, the client stores them in the jar
			app := fiber.New()
			app.Get("/*", func(ctx fiber.Ctx) error {
				for _, jc := range op.Cookies {
					switch jc.Exp {
					case "maxage0", "maxage-1", "maxagefar", "maxagehuge":
						ma := map[string]string{"maxage0": "0", "maxage-1": "-1", "maxagefar": "3600", "maxagehuge": "10000000000"}[jc.Exp]
						line := fmt.Sprintf("%s=%s; Max-Age=%s", jc.Key, jc.Val, ma)
						if keyPath[jc.Key] != "" {
							line += "; Path=" + keyPath[jc.Key]
						}
						ctx.Response().Header.Add("Set-Cookie", line) // one header line per cookie
						continue
					}
					ck := mkCookie(jc)
					ctx.Response().Header.SetCookie(ck)
					fasthttp.ReleaseCookie(ck)
				}
				return ctx.SendString("ok")
			})
			ln := fasthttputil.NewInmemoryListener()
			go func() { _ = app.Listener(ln, fiber.ListenConfig{DisableStartupMessage: true}) }()
			cl := client.New().SetDial(func(string) (net.Conn, error) { return ln.Dial() }).SetCookieJar(jar).SetTimeout(20 * time.Second)
			resp, err := cl.Get("http://" + op.Host + op.Path)
			if err != nil {
				_ = app.Shutdown()
				return vk.Failf("op %d parse: request failed: %v", i, err)
			}
			resp.Close()
			_ = app.Shutdown()
			for _, jc := range op.Cookies {
				switch jc.Exp {
				case "maxage0", "maxage-1":
					jc.Exp = "past" // the server expired the cookie
				case "maxagefar", "maxagehuge":
					jc.Exp = "far"
				}
				if jc.Exp == "short" {
					// an expires attribute has one second resolution: a lifetime of a few milliseconds may already be over
					// when the client parses it, so such a cookie may or may not be stored
					jc.Exp = "shortparse"
				}
				apply(op.Host, jc)
			}
		case "redir":
			// a redirected exchange: Host answers 302 (with Set-Cookie lines) to http://Host2/landing, which sets cookies of
			// its own; the client follows redirects. Cookies in this operation all have the path "/".
			var landingCookies []string
			landed := false
			app := fiber.New()
			setAll := func(ctx fiber.Ctx, cs []JCookie) {
				for _, jc := range cs {
					ck := mkCookie(jc)
					ctx.Response().Header.SetCookie(ck)
					fasthttp.ReleaseCookie(ck)
				}
			}
			app.Get("/go", func(ctx fiber.Ctx) error {
				setAll(ctx, op.Cookies)
				return ctx.Redirect().To("http://" + op.Host2 + "/landing")
			})
			app.Get("/landing", func(ctx fiber.Ctx) error {
				landed = true
				ctx.Request().Header.VisitAllCookie(func(k, v []byte) { landingCookies = append(landingCookies, string(k)+"="+string(v)) })
				setAll(ctx, op.Cookies2)
				return ctx.SendString("landed")
			})
			ln := fasthttputil.NewInmemoryListener()
			go func() { _ = app.Listener(ln, fiber.ListenConfig{DisableStartupMessage: true}) }()
			cl := client.New().SetDial(func(string) (net.Conn, error) { return ln.Dial() }).SetCookieJar(jar).SetTimeout(20 * time.Second)
			resp, err := cl.Get("http://"+op.Host+"/go", client.Config{MaxRedirects: 3})
			if err != nil {
				_ = app.Shutdown()
				return vk.Failf("op %d redir: request failed: %v", i, err)
			}
			body := string(resp.Body())
			resp.Close()
			_ = app.Shutdown()
			if !landed || body != "landed" {
				return vk.Failf("op %d redir: the redirect from %s to %s was not followed (body %q)", i, op.Host, op.Host2, body)
			}
			// what the landing host may have been sent: its own live cookies as they were BEFORE its answer, after the
			// first hop's cookies were learned
			for _, jc := range op.Cookies {
				apply(op.Host, jc)
			}
			mustL, mayL := "", ""
			if m := model[hostKey(op.Host2)]["k1"]; m != nil { // (only the path-"/" key is judged here)
				switch m.exp {
				case "session", "far":
					mustL = "k1=" + m.val
				case "short", "shortparse":
					mayL = "k1=" + m.val // may or may not have expired meanwhile
				}
			}
			var gotL []string
			for _, g := range landingCookies {
				if strings.HasPrefix(g, "k1=") {
					gotL = append(gotL, g)
				}
			}
			okL := len(gotL) <= 1
			if len(gotL) == 1 {
				okL = gotL[0] == mustL || gotL[0] == mayL
			} else if len(gotL) == 0 {
				okL = mustL == ""
			}
			if !okL {
				return vk.Failf("op %d: GET http://%s/go was redirected to http://%s/landing, which received the cookies %v; the jar holds for that host: %q (possibly expired: %q) (history %+v)", i, op.Host, op.Host2, landingCookies, mustL, mayL, c.Ops[:i+1])
			}
			for _, jc := range op.Cookies2 {
				apply(op.Host2, jc)
			}
			v.Classes = append(v.Classes, "redirect-followed")
			if hostKey(op.Host) != hostKey(op.Host2) {
				v.Classes = append(v.Classes, "redirect-to-another-host")
			}
		case "get":
			var got []*fasthttp.Cookie
			var gs []string
			if op.Wire {
				// what the jar puts on the wire: a request of a client with this jar, the cookies the server received
				wcl := client.New().SetDial(func(string) (net.Conn, error) { return s.ln.Dial() }).SetCookieJar(jar).SetTimeout(20 * time.Second)
				resp, err := wcl.Get("http://" + op.Host + op.Path)
				if err != nil {
					return vk.Failf("op %d: request to http://%s%s failed: %v", i, op.Host, op.Path, err)
				}
				resp.Close()
				s.mu.Lock()
				gs = append(gs, s.got.Cookies...)
				s.mu.Unlock()
				v.Classes = append(v.Classes, "cookies-seen-on-the-wire")
			} else {
				got = jar.Get(u)
				for _, ck := range got {
					gs = append(gs, string(ck.Key())+"="+string(ck.Value()))
				}
			}
			sort.Strings(gs)
			if op.RelGot && !op.Wire {
				// "The CookieJar keeps its own copies of cookies, so it is safe to release the returned cookies after use":
				// the caller does, and the pooled objects are taken and used by somebody else
				for _, ck := range got {
					fasthttp.ReleaseCookie(ck)
				}
				var others []*fasthttp.Cookie
				for j := 0; j < len(got)+2; j++ {
					o := fasthttp.AcquireCookie()
					o.SetKey("k1")
					o.SetValue("somebody-elses")
					o.SetPath("/")
					others = append(others, o)
				}
				defer func() {
					for _, o := range others {
						fasthttp.ReleaseCookie(o)
					}
				}()
				v.Classes = append(v.Classes, "returned-cookies-released")
			}
			// expectation with a tolerant band for short-lived cookies that are neither surely live nor surely expired
			var must, may []string
			now := time.Now()
			for key, m := range model[hostKey(op.Host)] {
				if keyPath[key] != "" && !pathMatches(keyPath[key], op.Path) {
					continue
				}
				e := key + "=" + m.val
				switch m.exp {
				case "session", "far":
					if keyPath[key] == "" {
						may = append(may, e)
						continue
					}
					must = append(must, e)
				case "shortparse":
					if now.Sub(m.setAt) < shortLife+12*time.Millisecond+time.Second {
						may = append(may, e)
					}
				case "short":
					age := now.Sub(m.setAt)
					if age < shortLife/2 {
						must = append(must, e)
					} else if age < shortLife+12*time.Millisecond {
						may = append(may, e)
					}
				}
			}
			sort.Strings(must)
			count := map[string]int{}
			for _, g := range gs {
				count[g]++
			}
			ctx := fmt.Sprintf("op %d: Get(http://%s%s) [wire=%v] returned %v; model: must %v may %v (history %+v)", i, op.Host, op.Path, op.Wire, gs, must, may, c.Ops[:i+1])
			for _, m := range must {
				if count[m] == 0 {
					return vk.Failf("%s: the stored, unexpired, path-matching cookie %s is missing", ctx, m)
				}
			}
			for g, n := range count {
				if n > 1 {
					return vk.Failf("%s: cookie %s returned %d times", ctx, g, n)
				}
				ok := false
				for _, m := range append(must, may...) {
					ok = ok || m == g
				}
				if !ok {
					return vk.Failf("%s: cookie %s must not be returned for this URL (other host, non-matching path, expired, deleted or overwritten)", ctx, g)
				}
			}
			v.NonTrivial = v.NonTrivial || purged || repeated
		}
		fasthttp.ReleaseURI(u)
	}
	_ = s
	if purged {
		v.Classes = append(v.Classes, "after-expiry-purge")
	}
	if repeated {
		v.Classes = append(v.Classes, "repeated-set")
	}
	if c.Related {
		v.Classes = append(v.Classes, "prefix-related-paths")
	}
	return v
}

// classifyJar: open finding C18-a - the jar's path test is reversed (cookie path must have the REQUEST path as prefix).
// Recognised when the failing Get involves a cookie whose path differs from the request path and one is a prefix of the
// other, and the case contains nothing else that could explain it (the same history without those cookies passes).
func classifyJar(c JarCase, fail string) string {
	if !c.Related {
		return ""
	}
	// rerun without the prefix-related situations: drop k4 cookies and gets on prefix-related paths
	c2 := JarCase{}
	for _, op := range c.Ops {
		o := op
		o.Cookies = nil
		for _, jc := range op.Cookies {
			if jc.Key != "k4" {
				o.Cookies = append(o.Cookies, jc)
			}
		}
		if op.Kind == "get" || op.Kind == "parse" {
			switch op.Path {
			case "/a/b", "/a/b/c", "/a/x":
				continue
			case "/":
				if op.Kind == "get" {
					continue
				}
			}
		}
		c2.Ops = append(c2.Ops, o)
	}
	if checkJar(c2).Fail == "" {
		return "C18-a"
	}
	return ""
}

func genJar(t *rapid.T) JarCase {
	c := JarCase{Related: rapid.IntRange(0, 5).Draw(t, "related") == 0}
	hosts := []string{"one.test", "two.test", "one.test:8080", "three.test:81"}
	if rapid.IntRange(0, 3).Draw(t, "v6hosts") == 0 {
		hosts = []string{"one.test", "[2001:db8::1]", "[2001:db8::2]", "[2001:db8::1]:8080", "one.test:8080"}
	}
	paths := []string{"/", "/a", "/b", "/c"}
	keys := []string{"k1", "k2", "k3", "k5"}
	if c.Related {
		paths = append(paths, "/a/b", "/a/b/c", "/a/x")
		keys = append(keys, "k4")
	}
	n := rapid.IntRange(1, 16).Draw(t, "nops")
	for i := 0; i < n; i++ {
		op := JOp{Host: rapid.SampledFrom(hosts).Draw(t, "host"), Path: rapid.SampledFrom(paths).Draw(t, "path")}
		if !c.Related && op.Path == "/" {
			// a request for "/" is prefix-related to every cookie path: open finding C18-a territory
			op.Path = "/c"
		}
		switch k := rapid.IntRange(0, 11).Draw(t, "kind"); {
		case k <= 2:
			op.Kind = "set"
		case k <= 4:
			op.Kind = "parse"
		case k == 5 && rapid.Bool().Draw(t, "redirnotsleep"):
			op.Kind = "redir"
			op.Host2 = rapid.SampledFrom(hosts).Draw(t, "host2")
			op.Path = "/go"
			mk := func(label string) []JCookie {
				if rapid.Bool().Draw(t, label+"has") {
					return []JCookie{{Key: "k1", Val: fmt.Sprintf("v%d_%s", i, label), Exp: rapid.SampledFrom(map[bool][]string{true: {"session", "far", "past", "past"}, false: {"session", "far"}}[label == "hop1"]).Draw(t, label+"exp")}} // (the redirecting answer may delete the cookie: a logout)
				}
				return nil
			}
			op.Cookies, op.Cookies2 = mk("hop1"), mk("hop2")
		case k == 5:
			op.Kind = "sleep"
		case k == 6 && rapid.IntRange(0, 3).Draw(t, "rel") == 0:
			op.Kind = "release"
		default:
			op.Kind = "get"
			op.RelGot = rapid.IntRange(0, 2).Draw(t, "relgot") == 0
			op.Wire = rapid.IntRange(0, 2).Draw(t, "wire") == 0
		}
		if op.Kind == "set" || op.Kind == "parse" {
			nc := rapid.IntRange(1, 3).Draw(t, "nc")
			for j := 0; j < nc; j++ {
				jc := JCookie{Key: rapid.SampledFrom(keys).Draw(t, "key"), Val: fmt.Sprintf("v%d_%d", i, j), Exp: rapid.SampledFrom([]string{"session", "session", "far", "short", "past"}).Draw(t, "exp")}
				if op.Kind == "set" && jc.Exp == "past" {
					jc.Exp = "session" // Set() of an already expired cookie is not a deletion API
				}
				if op.Kind == "parse" && rapid.IntRange(0, 3).Draw(t, "maxage") == 0 {
					// the other way servers spell lifetime and deletion (RFC 6265 4.1.2.2; it takes precedence over Expires)
					jc.Exp = rapid.SampledFrom([]string{"maxage0", "maxage0", "maxagefar", "maxagehuge"}).Draw(t, "maxagekind")
				}
				op.Cookies = append(op.Cookies, jc)
			}
			if op.Kind == "parse" {
				// the exchange that delivers the cookies is made on a path the cookies apply to ("/" or the cookie's own path)
				if rapid.Bool().Draw(t, "parseroot") {
					op.Path = "/"
				} else {
					op.Path = keyPath[op.Cookies[0].Key]
				}
				// one Set-Cookie per name in a response
				seen := map[string]bool{}
				var uniq []JCookie
				for _, jc := range op.Cookies {
					if !seen[jc.Key] {
						seen[jc.Key] = true
						uniq = append(uniq, jc)
					}
				}
				op.Cookies = uniq
				for _, jc := range op.Cookies {
					if keyPath[jc.Key] == "" {
						op.Path = pathlessAt
					}
				}
			}
		}
		c.Ops = append(c.Ops, op)
	}
	return c
}

var propJar = vk.Register(&vk.Prop[JarCase]{Property: property, Name: "jar", Gen: genJar, Check: checkJar, Classify: classifyJar, Quick: 200, Thorough: 500})

func TestJar(t *testing.T) { propJar.Run(t) }

// ---- (b) ownership of responses under timeouts ------------------------------------------------------------

type OwnCase struct{ Note string }

var propOwn = vk.Register(&vk.Prop[OwnCase]{Property: property, Name: "ownership", Gen: func(*rapid.T) OwnCase { return OwnCase{} },
	Check: func(OwnCase) vk.Verdict { return vk.Verdict{Skip: true} }, Quick: 1, Thorough: 1})

func TestOwnership(t *testing.T) {
	workers, reqs, pad := 12, 80, 256<<10
	if vk.Tier() == "thorough" {
		workers, reqs, pad = 16, 300, 1<<20
	}
	app := fiber.New()
	padding := strings.Repeat("x", pad)
	app.Get("/:id", func(c fiber.Ctx) error {
		time.Sleep(3 * time.Millisecond)
		return c.SendString(c.Params("id") + ":" + padding)
	})
	// a response the client's own response hook rejects (unparsable Set-Cookie): the request fails after its response arrived
	app.Get("/badcookie/:id", func(c fiber.Ctx) error {
		c.Set("Set-Cookie", "sid=1; Max-Age=abc")
		return c.SendString(c.Params("id") + ":rejected")
	})
	// a slow redirect: the call often times out first, its caller releases the pooled Request and the next call
	// configures it anew - the hop that follows the late redirect still has to carry the cookies of ITS call
	var hopBad, hops int64
	var hopFirst atomic.Value
	app.Get("/hop/:id", func(c fiber.Ctx) error {
		time.Sleep(3 * time.Millisecond)
		return c.Redirect().To("/land/" + c.Params("id"))
	})
	app.Get("/land/:id", func(c fiber.Ctx) error {
		atomic.AddInt64(&hops, 1)
		if who := c.Cookies("who"); who != c.Params("id") {
			atomic.AddInt64(&hopBad, 1)
			hopFirst.CompareAndSwap(nil, fmt.Sprintf("the redirect hop of request %s arrived with cookie who=%q (tenant=%q)", c.Params("id"), who, c.Cookies("tenant")))
		}
		return c.SendString(c.Params("id") + ":" + padding)
	})
	ln := fasthttputil.NewInmemoryListener()
	go func() { _ = app.Listener(ln, fiber.ListenConfig{DisableStartupMessage: true}) }()
	defer func() { _ = app.Shutdown() }()
	// Besides the healthy server there are two hosts whose transport FAILS, sooner or later than the caller's timeout:
	// down.example refuses the dial after a delay, reset.example accepts, reads the request and closes without answering.
	var dialSeq int64
	cl := client.New().SetDial(func(addr string) (net.Conn, error) {
		n := atomic.AddInt64(&dialSeq, 1)
		switch {
		case strings.HasPrefix(addr, "down.example"):
			time.Sleep(time.Duration(1+n%8) * time.Millisecond)
			return nil, errors.New("vk-foreign: dial down.example: host is down")
		case strings.HasPrefix(addr, "reset.example"):
			a, b := net.Pipe()
			go func() {
				buf := make([]byte, 4096)
				_, _ = b.Read(buf)
				time.Sleep(time.Duration(1+n%8) * time.Millisecond)
				_ = b.Close()
			}()
			return a, nil
		}
		return ln.Dial()
	}).SetCookieJar(client.AcquireCookieJar())
	var bad, ok, timeouts, failing int64
	var first atomic.Value
	var wg sync.WaitGroup
	seed := int(vk.Seed() % 1000)
	for g := 0; g < workers; g++ {
		wg.Add(1)
		go func(g int) {
			defer wg.Done()
			for i := 0; i < reqs; i++ {
				id := fmt.Sprintf("r%d-%d", g, i)
				to := 2500*time.Microsecond + time.Duration((g*37+i*91+seed)%3000)*time.Microsecond
				if k := (g*7 + i*13 + seed) % 10; k < 3 {
					// a request whose transport fails: it must end in an error, never in a response
					host := []string{"down.example", "reset.example", "down.example"}[k]
					resp, err := cl.R().SetTimeout(to).Get("http://" + host + "/" + id)
					atomic.AddInt64(&failing, 1)
					if err == nil {
						body := resp.Body()
						atomic.AddInt64(&bad, 1)
						first.CompareAndSwap(nil, fmt.Sprintf("request %s to %s (whose transport always fails; timeout %v) was handed a response: status %d, %d body bytes starting %q", id, host, to, resp.StatusCode(), len(body), string(body[:min(len(body), 24)])))
						resp.Close()
					}
					vk.Rec.Count("ownership", uint64(g)<<32|uint64(i), true, []string{"failing-transport"}, func() any { return map[string]any{"id": id, "host": host, "timeout_us": to.Microseconds()} })
					continue
				}
				if (g*11+i*17+seed)%10 == 9 {
					// through the client's convenience method (it owns the pooled Request); a late hook failure must not
					// leave that Request shared with later requests
					resp, err := cl.Get("http://example.com/badcookie/"+id, client.Config{Timeout: 2 * time.Second})
					atomic.AddInt64(&failing, 1)
					if err == nil {
						resp.Close()
					}
					// whoever asks the pool next: two callers must never be handed the same object
					if a, b := client.AcquireRequest(), client.AcquireRequest(); a == b {
						atomic.AddInt64(&bad, 1)
						first.CompareAndSwap(nil, fmt.Sprintf("after request %s (its response hook failed) the request pool handed the same Request object to two callers: it had been put back twice", id))
						client.ReleaseRequest(a)
					} else {
						client.ReleaseRequest(a)
						client.ReleaseRequest(b)
					}
					vk.Rec.Count("ownership", uint64(g)<<32|uint64(i), true, []string{"response-hook-fails"}, func() any { return map[string]any{"id": id} })
					continue
				}
				var resp *client.Response
				var err error
				if (g*5+i*3+seed)%4 == 0 {
					req := client.AcquireRequest().SetClient(cl).SetCookie("who", id).SetMaxRedirects(2).SetTimeout(to)
					resp, err = req.Get("http://example.com/hop/" + id)
					if err != nil {
						client.ReleaseRequest(req) // (a response releases its request when it is closed)
					}
					if nx := client.AcquireRequest(); err != nil {
						// whoever takes the object from the pool next
						nx.SetCookie("who", "somebody-else").SetCookie("tenant", "other")
						client.ReleaseRequest(nx)
					}
				} else {
					resp, err = cl.R().SetTimeout(to).Get("http://example.com/" + id)
				}
				if err != nil {
					if strings.Contains(err.Error(), "vk-foreign") {
						// the healthy host never produces this error: it is the late failure of somebody else's abandoned request
						atomic.AddInt64(&bad, 1)
						first.CompareAndSwap(nil, fmt.Sprintf("request %s to the healthy host (timeout %v) returned another request's transport error: %v", id, to, err))
					}
					atomic.AddInt64(&timeouts, 1)
					continue
				}
				body := resp.Body()
				if !strings.HasPrefix(string(body[:min(len(body), 40)]), id+":") || len(body) != len(id)+1+pad {
					atomic.AddInt64(&bad, 1)
					first.CompareAndSwap(nil, fmt.Sprintf("request %s (timeout %v) got status %d and a body of %d bytes starting %q", id, to, resp.StatusCode(), len(body), string(body[:min(len(body), 24)])))
				} else {
					atomic.AddInt64(&ok, 1)
				}
				resp.Close()
				vk.Rec.Count("ownership", uint64(g)<<32|uint64(i), true, []string{"returned-response"}, func() any { return map[string]any{"id": id, "timeout_us": to.Microseconds()} })
			}
		}(g)
	}
	wg.Wait()
	time.Sleep(30 * time.Millisecond) // hops of abandoned calls still under way
	if n := atomic.LoadInt64(&hopBad); n > 0 {
		atomic.AddInt64(&bad, n)
		first.CompareAndSwap(nil, fmt.Sprintf("%d of %d redirect hops carried cookies of another call; first: %v", n, atomic.LoadInt64(&hops), hopFirst.Load()))
	}
	vk.Rec.Extra("ownership", map[string]int64{"ok": ok, "bad": bad, "timeouts": timeouts, "failing_transport_requests": failing, "redirect_hops": atomic.LoadInt64(&hops)})
	if bad > 0 {
		msg := fmt.Sprintf("%d of %d results handed back do not belong to their request while %d other requests timed out and %d had a failing transport; first: %v", bad, ok+bad, timeouts, failing, first.Load())
		path := vk.SaveReplay(propOwn, OwnCase{Note: msg}, msg)
		vk.Rec.Violation("ownership", path)
		t.Errorf("VIOLATION-CANDIDATE property=%s test=ownership replay=%s\n%s", property, path, msg)
	}
}

// ---- (d) which timeout applies ------------------------------------------------------------------------------------

// TimeoutCase: a timeout on the client, on the request, on both or on neither (0 = not set), and a server that answers
// at once or after 400 ms. The timeouts are 40 ms and 5 s, so that every combination has a verdict with a wide margin:
// the request's timeout applies if it is set, else the client's.
type TimeoutCase struct {
	ClientMs, RequestMs int
	Via                 string // R (Request.SetTimeout) | config (client.Config{Timeout} of the convenience call)
	Slow                bool
}

func checkTimeout(c TimeoutCase) vk.Verdict {
	app := fiber.New()
	app.Get("/slow", func(ctx fiber.Ctx) error { time.Sleep(400 * time.Millisecond); return ctx.SendString("late") })
	app.Get("/fast", func(ctx fiber.Ctx) error { return ctx.SendString("now") })
	ln := fasthttputil.NewInmemoryListener()
	go func() { _ = app.Listener(ln, fiber.ListenConfig{DisableStartupMessage: true}) }()
	defer func() { _ = app.Shutdown() }()
	cl := client.New().SetDial(func(string) (net.Conn, error) { return ln.Dial() })
	if c.ClientMs > 0 {
		cl.SetTimeout(time.Duration(c.ClientMs) * time.Millisecond)
	}
	url := "http://example.com/fast"
	if c.Slow {
		url = "http://example.com/slow"
	}
	start := time.Now()
	var resp *client.Response
	var err error
	if c.Via == "config" {
		cfg := client.Config{}
		if c.RequestMs > 0 {
			cfg.Timeout = time.Duration(c.RequestMs) * time.Millisecond
		}
		resp, err = cl.Get(url, cfg)
	} else {
		r := cl.R()
		if c.RequestMs > 0 {
			r.SetTimeout(time.Duration(c.RequestMs) * time.Millisecond)
		}
		resp, err = r.Get(url)
	}
	took := time.Since(start)
	if resp != nil {
		defer resp.Close()
	}
	eff := c.ClientMs
	if c.RequestMs > 0 {
		eff = c.RequestMs
	}
	ctx := fmt.Sprintf("client timeout %d ms, request timeout %d ms (set through %s), server answers after %v: the call returned after %v with err=%v", c.ClientMs, c.RequestMs, c.Via, map[bool]string{true: "400 ms", false: "0 ms"}[c.Slow], took.Round(time.Millisecond), err)
	v := vk.Verdict{NonTrivial: c.ClientMs > 0 && c.RequestMs > 0 && c.ClientMs != c.RequestMs, Classes: []string{fmt.Sprintf("client:%d request:%d slow:%v", c.ClientMs, c.RequestMs, c.Slow)}}
	if c.Slow && eff == 40 {
		// the timeout that applies is 40 ms
		if err == nil { // (how long the call took is reported, not judged: the machine may be busy)
			return vk.Failf("%s - the timeout that applies is %d ms (the request's if it is set, else the client's)", ctx, eff)
		}
		return v
	}
	if err != nil {
		return vk.Failf("%s - the timeout that applies is %d ms (0 = none), the answer was in time", ctx, eff)
	}
	return v
}

var propTimeout = vk.Register(&vk.Prop[TimeoutCase]{Property: property, Name: "timeouts", Check: checkTimeout, Quick: 12, Thorough: 40,
	Gen: func(t *rapid.T) TimeoutCase {
		return TimeoutCase{ClientMs: rapid.SampledFrom([]int{0, 40, 5000}).Draw(t, "client"), RequestMs: rapid.SampledFrom([]int{0, 40, 5000}).Draw(t, "request"),
			Via: rapid.SampledFrom([]string{"R", "config"}).Draw(t, "via"), Slow: rapid.IntRange(0, 3).Draw(t, "slow") != 0}
	}})

func TestTimeouts(t *testing.T) { propTimeout.Run(t) }
