package c05

import (
	"bufio"
	"crypto/ecdsa"
	"crypto/elliptic"
	"crypto/rand"
	"crypto/tls"
	"crypto/x509"
	"crypto/x509/pkix"
	"fmt"
	"math/big"
	"net"
	"strings"
	"sync"
	"testing"
	"time"

	"github.com/gofiber/fiber/v3"
	"github.com/valyala/fasthttp"
	"github.com/valyala/fasthttp/fasthttputil"
	"pgregory.net/rapid"

	"verifharness/vk"
)

// ---- connection-level state: what the context reports about the TLS handshake of ITS connection -----------------
//
// The server is set up the way App.Listen does it for a certificate: a TLSHandler whose GetClientInfo is the
// GetCertificate callback of the tls.Config, attached with SetTLSHandler. Several clients connect with different
// server names (SNI); the handler reports c.ClientHelloInfo().ServerName. A request's observation must be that of
// its own connection - on a fresh app, with nobody else connected, it is the name this client sent.

type TLSOp struct {
	Kind string // shake (connect and complete the handshake) | req (a request on the connection, connecting first if need be)
	Conn int
}

type TLSCase struct {
	Names []string // server name sent by each connection
	Ops   []TLSOp
}

var (
	certOnce sync.Once
	certVal  tls.Certificate
)

func testCert() tls.Certificate {
	certOnce.Do(func() {
		key, err := ecdsa.GenerateKey(elliptic.P256(), rand.Reader)
		if err != nil {
			panic(err)
		}
		tmpl := &x509.Certificate{SerialNumber: big.NewInt(1), Subject: pkix.Name{CommonName: "verif"}, NotBefore: time.Unix(0, 0), NotAfter: time.Unix(4_000_000_000, 0),
			KeyUsage: x509.KeyUsageDigitalSignature, ExtKeyUsage: []x509.ExtKeyUsage{x509.ExtKeyUsageServerAuth}, DNSNames: []string{"*.test"}}
		der, err := x509.CreateCertificate(rand.Reader, tmpl, tmpl, &key.PublicKey, key)
		if err != nil {
			panic(err)
		}
		certVal = tls.Certificate{Certificate: [][]byte{der}, PrivateKey: key}
	})
	return certVal
}

func checkTLS(c TLSCase) vk.Verdict {
	app := fiber.New()
	h := &fiber.TLSHandler{}
	app.SetTLSHandler(h)
	app.Get("/", func(ctx fiber.Ctx) error {
		chi := ctx.ClientHelloInfo()
		if chi == nil {
			return ctx.SendString("<nil>")
		}
		return ctx.SendString(chi.ServerName)
	})
	_ = app.Handler()                                                                                                              // start-up
	cfg := &tls.Config{MinVersion: tls.VersionTLS12, Certificates: []tls.Certificate{testCert()}, GetCertificate: h.GetClientInfo} // as in listen.go
	ln := fasthttputil.NewInmemoryListener()
	srv := app.Server()
	done := make(chan struct{})
	go func() {
		_ = srv.Serve(tls.NewListener(ln, cfg))
		close(done)
	}()
	conns := make([]*tls.Conn, len(c.Names))
	readers := make([]*bufio.Reader, len(c.Names))
	defer func() {
		for _, tc := range conns {
			if tc != nil {
				_ = tc.Close()
			}
		}
		_ = ln.Close()
		select {
		case <-done:
		case <-time.After(5 * time.Second):
		}
	}()
	lastShake := -1
	shake := func(i int) error {
		raw, err := ln.Dial()
		if err != nil {
			return err
		}
		tc := tls.Client(raw, &tls.Config{ServerName: c.Names[i], InsecureSkipVerify: true}) //nolint:gosec // test certificate
		_ = tc.SetDeadline(time.Now().Add(10 * time.Second))
		if err := tc.Handshake(); err != nil {
			_ = raw.Close()
			return err
		}
		conns[i], readers[i] = tc, bufio.NewReader(tc)
		lastShake = i
		return nil
	}
	v := vk.Verdict{}
	others := false
	for k, op := range c.Ops {
		if op.Conn >= len(c.Names) {
			return vk.Verdict{Skip: true}
		}
		if conns[op.Conn] == nil {
			if err := shake(op.Conn); err != nil {
				return vk.Failf("op %d: handshake of connection %d (%s): %v", k, op.Conn, c.Names[op.Conn], err)
			}
		} else if op.Kind == "shake" {
			continue // already connected
		}
		if op.Kind != "req" {
			continue
		}
		tc := conns[op.Conn]
		if _, err := tc.Write([]byte("GET / HTTP/1.1\r\nHost: probe.test\r\n\r\n")); err != nil {
			return vk.Failf("op %d: writing on connection %d: %v", k, op.Conn, err)
		}
		var resp fasthttp.Response
		if err := resp.Read(readers[op.Conn]); err != nil {
			return vk.Failf("op %d: reading on connection %d: %v", k, op.Conn, err)
		}
		got := string(resp.Body())
		if lastShake != op.Conn && c.Names[lastShake] != c.Names[op.Conn] {
			others = true
		}
		if want := c.Names[op.Conn]; got != want {
			how := "something else"
			if lastShake != op.Conn && got == c.Names[lastShake] {
				how = "the hello of the connection that shook hands last"
			}
			return vk.Failf("TLS-HELLO op %d of %+v (server names %v): the request on connection %d, which shook hands as %q, is told ClientHelloInfo().ServerName=%q - %s (on a fresh app with only this connection it is %q)",
				k, c.Ops, c.Names, op.Conn, want, got, how, want)
		}
	}
	v.NonTrivial = others
	if others {
		v.Classes = append(v.Classes, "request-after-another-connection's-handshake")
	}
	return v
}

// classifyTLS: finding C05-e - the hello is kept in one field of the app's TLSHandler, so every context reports the
// handshake that happened last. Only that exact shape is known; a nil or any other name is not.
func classifyTLS(_ TLSCase, fail string) string {
	if strings.HasPrefix(fail, "TLS-HELLO ") && strings.Contains(fail, " - the hello of the connection that shook hands last (") {
		return "C05-e"
	}
	return ""
}

var propTLS = vk.Register(&vk.Prop[TLSCase]{Property: property, Name: "tlshello", Check: checkTLS, Classify: classifyTLS, Quick: 150, Thorough: 1500,
	Gen: func(t *rapid.T) TLSCase {
		n := rapid.IntRange(1, 4).Draw(t, "nconn")
		c := TLSCase{}
		for i := 0; i < n; i++ {
			c.Names = append(c.Names, rapid.SampledFrom([]string{"a.test", "b.test", "c.test", "a.test"}).Draw(t, "sni"))
		}
		k := rapid.IntRange(1, 8).Draw(t, "nops")
		for i := 0; i < k; i++ {
			c.Ops = append(c.Ops, TLSOp{Kind: rapid.SampledFrom([]string{"shake", "req", "req"}).Draw(t, "kind"), Conn: rapid.IntRange(0, n-1).Draw(t, "conn")})
		}
		return c
	}})

func TestTLSHello(t *testing.T) { propTLS.Run(t) }

var _ = net.IPv4
var _ = fmt.Sprint
