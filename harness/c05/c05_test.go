package c05

import (
	"bufio"
	"bytes"
	"errors"
	"fmt"
	"io"
	"net"
	"net/http"
	"net/http/httptest"
	"regexp"
	"runtime"
	"sort"
	"strings"
	"sync"
	"sync/atomic"
	"testing"

	"github.com/gofiber/fiber/v3"
	"github.com/gofiber/fiber/v3/middleware/adaptor"
	"github.com/valyala/fasthttp"
	"github.com/valyala/fasthttp/fasthttputil"
	"pgregory.net/rapid"

	"verifharness/vk"
)

const property = "C05"

func TestMain(m *testing.M) { vk.Main(m, property) }

func TestAAACorpus(t *testing.T)    { vk.TestCorpus(t, property) }
func TestAAAWitnesses(t *testing.T) { vk.TestWitnesses(t, property) }
func TestReplay(t *testing.T)       { vk.TestReplay(t) }

// HReq is one request of the history.
type HReq struct {
	Kind    string   // dirty | malformed
	Method  string   `json:",omitempty"`
	Acts    []string `json:",omitempty"` // what the dirtying handler does
	I       int      // makes the values of this request distinctive
	P2      bool     `json:",omitempty"` // optional parameter present
	Flash   []byte   `json:",omitempty"` // fiber_flash cookie bytes (raw)
	Body    string   `json:",omitempty"`
	Form    bool     `json:",omitempty"`
	Mal     string   `json:",omitempty"` // malformed: which kind
	NewConn bool     `json:",omitempty"` // start a new connection before this request
	Host    string   `json:",omitempty"` // Host header ("" = a host of its own); related to the probe's host: same, a sub-domain, a look-alike suffix, other case, with port
}

type Probe struct {
	P2      bool
	Query   string
	Flash   []byte `json:",omitempty"`
	Redir   bool   `json:",omitempty"`
	Headers bool   `json:",omitempty"` // probe carries own X-A / cookie / Accept headers
	NewConn bool   `json:",omitempty"`
	Method  string
	// Rejected: the probe is refused by the server before routing (it announces a body beyond Config.BodyLimit): its
	// answer is produced by the application's ErrorHandler, which observes the context it is given
	Rejected bool `json:",omitempty"`
	Root     bool `json:",omitempty"` // the probe asks for "/" (route "/:lang?", its parameter left out)
}

type Case struct {
	AdaptorPanic bool `json:",omitempty"` // adaptor property: the history's handlers that set locals panic afterwards
	Immutable    bool
	Hist         []HReq
	Probe        Probe
}

func newApp(c Case) *fiber.App {
	app := fiber.New(fiber.Config{Views: vk.Views{}, PassLocalsToViews: true, Immutable: c.Immutable, ErrorHandler: func(ctx fiber.Ctx, err error) error {
		if ctx.Get("X-Probe-EH") != "1" {
			return fiber.DefaultErrorHandler(ctx, err)
		}
		// an error page that shows (or a log line that records) what the context says about the refused request
		code := fiber.StatusInternalServerError
		var fe *fiber.Error
		if errors.As(err, &fe) {
			code = fe.Code
		}
		obs := vk.Observe(ctx, "lk", "other")
		return ctx.Status(code).SendString(strings.Join(obs, "\n"))
	}})
	// template variables every page gets: one long-lived map of the application, bound by whoever renders
	siteVars := fiber.Map{"site": "example.org"}
	app.All("/dirty/:p1/:p2?", func(ctx fiber.Ctx) error {
		for _, a := range strings.Split(ctx.Query("acts"), ",") {
			switch a {
			case "sitebind":
				_ = ctx.ViewBind(siteVars)
				_ = ctx.ViewBind(fiber.Map{"user": "u-" + ctx.Params("p1")})
			case "locals":
				ctx.Locals("lk", "lv-"+ctx.Params("p1"))
				ctx.Locals("other", 42)
			case "localspanic":
				// (adaptor histories only: net/http recovers a panicking handler per connection and keeps serving)
				ctx.Locals("lk", "lv-"+ctx.Params("p1"))
				ctx.Locals("other", 42)
				panic("handler failed after setting its locals")
			case "viewbind":
				_ = ctx.ViewBind(fiber.Map{"vb": "vb-" + ctx.Params("p1")})
			case "hdr":
				ctx.Set("X-Leak", "leak-"+ctx.Params("p1"))
				ctx.Cookie(&fiber.Cookie{Name: "leakc", Value: ctx.Params("p1")})
				ctx.Vary("Origin")
				ctx.Append("Link", "<x>")
			case "redir":
				return ctx.Redirect().Status(307).With("fk", "fv"+ctx.Params("p1"), 7).To("/x")
			case "redirinput":
				return ctx.Redirect().Status(303).WithInput().To("/x")
			case "redirprep":
				// a redirect that is prepared and then does not take place (the handler takes another branch)
				ctx.Redirect().Status(303).With("pk", "pv"+ctx.Params("p1"))
			case "redirback":
				// Back() without a fallback fails when the request has no Referer header
				if err := ctx.Redirect().Status(301).Back(); err != nil {
					return err
				}
				return nil
			case "redirroute":
				if err := ctx.Redirect().Status(308).Route("no-such-route"); err != nil {
					return fiber.NewError(500, "no such route")
				}
				return nil
			case "bindauto":
				var q vk.BindTarget
				_ = ctx.Bind().WithAutoHandling().Query(&q)
			case "bindbody":
				var q vk.BindTarget
				_ = ctx.Bind().Body(&q)
			case "path":
				ctx.Path("/dirty/zz/yy")
			case "method":
				ctx.Method("PUT")
			case "err":
				return fiber.NewError(502, "boom")
			case "status":
				ctx.Status(299)
			case "observe":
				_ = vk.Observe(ctx, "lk")
			case "json":
				return ctx.JSON(fiber.Map{"x": ctx.Params("p1")})
			case "render":
				return ctx.Render("tpl", fiber.Map{"dirtyown": ctx.Params("p1")})
			case "type":
				ctx.Type("json", "utf-8")
			case "sendfile":
				return ctx.SendFile(assetPath)
			case "sendfilemax":
				return ctx.SendFile(assetPath, fiber.SendFile{MaxAge: 86400})
			case "sendfiledl":
				return ctx.SendFile(assetPath, fiber.SendFile{Download: true, ByteRange: true})
			}
		}
		return ctx.SendString("dirty")
	})
	app.All("/probe/:p1/:p2?", func(ctx fiber.Ctx) error {
		// negotiation against offers that carry parameters (first thing: parsed range parameters live in a process-wide pool)
		neg := ctx.Accepts("application/json;version=1", "text/html;level=1", "text/plain") + "|" + ctx.Accepts("text/html;level=1", "text/plain")
		obs := vk.Observe(ctx, "lk", "other")
		if ctx.Query("redir") == "1" {
			return ctx.Redirect().To("/plain")
		}
		switch ctx.Query("sf") { // a file response: its headers are a function of this call's options alone
		case "plain":
			return ctx.SendFile(assetPath)
		case "max":
			return ctx.SendFile(assetPath, fiber.SendFile{MaxAge: 3600})
		}
		ctx.Set("X-Obs-Len", fmt.Sprint(len(obs)))
		ctx.Set("X-Neg", neg)
		_ = ctx.ViewBind(siteVars)
		return ctx.Render("tpl", fiber.Map{"own": "1", "obs": strings.Join(obs, "\n")})
	})
	// a language switch at the root of the site: "/" and "/de" are one route with an optional parameter
	app.Get("/:lang?", func(ctx fiber.Ctx) error {
		return ctx.SendString(strings.Join(vk.Observe(ctx, "lk", "other"), "\n") + "\nlang-with-default=" + ctx.Params("lang", "en"))
	})
	return app
}

func flashHdr(b []byte) string {
	if len(b) == 0 {
		return ""
	}
	return "; fiber_flash=" + string(b)
}

func (h HReq) wire() []byte {
	if h.Kind == "unrouted" {
		// a request that enters no route at all (404 written by the error handler), possibly with a flash cookie
		return []byte(fmt.Sprintf("GET /no/such/route/%d?a=qa%d HTTP/1.1\r\nHost: h%d.sub.test\r\nX-A: ha%d\r\nCookie: a=ca%d%s\r\n\r\n", h.I, h.I, h.I, h.I, h.I, flashHdr(h.Flash)))
	}
	if h.Kind == "root" {
		return []byte(fmt.Sprintf("GET /L%d?a=qa%d HTTP/1.1\r\nHost: h%d.sub.test\r\nX-A: ha%d\r\n\r\n", h.I, h.I, h.I, h.I))
	}
	if h.Kind == "malformed" {
		switch h.Mal {
		case "badline":
			return []byte("GET /dirty/a\r\n\r\n")
		case "badheader":
			return []byte("GET /dirty/a/b?acts=locals HTTP/1.1\r\nHost: x\r\nX-Bad\r\n\r\n")
		case "bigheader":
			return []byte("GET /dirty/a/b?acts=locals,viewbind HTTP/1.1\r\nHost: x\r\nX-Big: " + strings.Repeat("z", 8000) + "\r\n\r\n")
		case "badchunk":
			return []byte("POST /dirty/a/b?acts=locals HTTP/1.1\r\nHost: x\r\nTransfer-Encoding: chunked\r\n\r\nZZ\r\nxx\r\n0\r\n\r\n")
		default:
			return []byte("POST /dirty/a/b HTTP/1.1\r\nHost: x\r\nContent-Length: -5\r\n\r\n")
		}
	}
	p2 := ""
	if h.P2 {
		p2 = fmt.Sprintf("/E%d", h.I)
	}
	body := h.Body
	ct := ""
	if h.Form {
		body = fmt.Sprintf("a=fa%d&b=fb%d&n=%d", h.I, h.I, h.I)
		ct = "Content-Type: application/x-www-form-urlencoded\r\n"
	} else if body != "" {
		ct = "Content-Type: application/json\r\n"
	}
	host := h.Host
	if host == "" {
		host = fmt.Sprintf("h%d.sub.test", h.I)
	}
	return []byte(fmt.Sprintf("%s /dirty/D%d%s?acts=%s&a=qa%d&b=qb1&b=qb2&n=%d HTTP/1.1\r\nHost: %s\r\nX-A: ha%d\r\nX-Forwarded-For: 9.9.9.%d\r\nAccept: %s\r\nRange: bytes=%d-\r\nIf-None-Match: \"e%d\"\r\n%sCookie: a=ca%d; sid=s%d%s\r\nContent-Length: %d\r\n\r\n%s",
		h.Method, h.I, p2, strings.Join(h.Acts, ","), h.I, h.I, host, h.I, h.I%250, histAccept(h.I), h.I, h.I, ct, h.I, h.I, flashHdr(h.Flash), len(body), body))
}

// histAccept: the Accept header of the i-th history request: plain weights, refused ranges that carry parameters, several
// parameterised ranges (negotiation keeps parsed parameters in a process-wide pool)
func histAccept(i int) string {
	switch i % 4 {
	case 1:
		return "text/html;level=1;q=0, text/plain"
	case 2:
		return fmt.Sprintf("application/json;version=%d;q=0, text/html;level=2;charset=utf-8;q=0, */*;q=0.1", i)
	case 3:
		return "application/json;version=2, text/html;level=3;q=0.5"
	}
	return fmt.Sprintf("text/plain;q=0.%d", i%9+1)
}

func (p Probe) wire() []byte {
	p2 := ""
	if p.P2 {
		p2 = "/P2"
	}
	q := p.Query
	if p.Redir {
		if q != "" {
			q += "&"
		}
		q += "redir=1"
	}
	hdr := ""
	ck := ""
	if p.Headers {
		hdr = "X-A: probe-a\r\nAccept: application/json;version=1, text/html;level=1;q=0.5\r\n"
		ck = "a=probe-cookie"
	}
	if len(p.Flash) > 0 {
		if ck != "" {
			ck += "; "
		}
		ck += "fiber_flash=" + string(p.Flash)
	}
	if ck != "" {
		hdr += "Cookie: " + ck + "\r\n"
	}
	if p.Root && !p.Rejected {
		return []byte(fmt.Sprintf("GET /?%s HTTP/1.1\r\nHost: probe.test\r\n%s\r\n", q, hdr))
	}
	if p.Rejected {
		hdr += "X-Probe-EH: 1\r\nContent-Length: 99999999\r\n" // the default BodyLimit is 4 MiB: refused with 413 once the header is read
	}
	return []byte(fmt.Sprintf("%s /probe/P1%s?%s HTTP/1.1\r\nHost: probe.test\r\n%s\r\n", p.Method, p2, q, hdr))
}

var dateRe = regexp.MustCompile(`(?m)^Date: [^\r]*\r\n`)
var expiresRe = regexp.MustCompile(`expires=[^;\r]*`)

func lastResponse(out []byte) string {
	idx := bytes.LastIndex(out, []byte("HTTP/1.1 "))
	if idx < 0 {
		return string(out)
	}
	s := dateRe.ReplaceAllString(string(out[idx:]), "")
	return expiresRe.ReplaceAllString(s, "expires=X")
}

func carriable(b []byte) bool {
	for _, x := range b {
		if x == '\r' || x == '\n' || x == 0 || x == ';' || x == ' ' || x == ',' {
			return false
		}
	}
	return true
}

func check(c Case) vk.Verdict {
	if !carriable(c.Probe.Flash) {
		return vk.Verdict{Skip: true}
	}
	for _, h := range c.Hist {
		if !carriable(h.Flash) {
			return vk.Verdict{Skip: true}
		}
	}
	app := newApp(c)
	// split the history into connections
	var conns [][]byte
	cur := []byte{}
	for i, h := range c.Hist {
		if h.NewConn && i > 0 {
			conns = append(conns, cur)
			cur = []byte{}
		}
		cur = append(cur, h.wire()...)
		if h.Kind == "malformed" {
			// a malformed request ends its connection
			conns = append(conns, cur)
			cur = []byte{}
		}
	}
	if c.Probe.NewConn && len(cur) > 0 {
		conns = append(conns, cur)
		cur = []byte{}
	}
	cur = append(cur, c.Probe.wire()...)
	conns = append(conns, cur)
	var out []byte
	for _, raw := range conns {
		o, err := vk.Wire(app, raw)
		if err != nil {
			return vk.Failf("serving the history: %v", err)
		}
		out = o
	}
	fresh := newApp(c)
	want, err := vk.Wire(fresh, c.Probe.wire())
	if err != nil {
		return vk.Failf("serving the probe on a fresh app: %v", err)
	}
	got, exp := lastResponse(out), lastResponse(want)
	if got != exp {
		return vk.Failf("the probe's observation depends on the requests served before it (immutable=%v):\nhistory: %q\nprobe: %q\n--- after history ---\n%s\n--- on a fresh app ---\n%s\n--- first difference ---\n%s",
			c.Immutable, histSummary(c), c.Probe.wire(), got, exp, firstDiff(got, exp))
	}
	v := vk.Verdict{}
	sameConn := !c.Probe.NewConn
	for _, h := range c.Hist {
		if h.Kind == "dirty" && (len(h.Acts) > 0 || len(h.Flash) > 0) {
			v.NonTrivial = true
		}
		for _, a := range h.Acts {
			v.Classes = append(v.Classes, "act:"+a)
		}
		if len(h.Flash) > 0 {
			v.Classes = append(v.Classes, "hist-flash")
		}
		if h.Kind == "malformed" {
			v.Classes = append(v.Classes, "malformed:"+h.Mal)
		}
	}
	if len(c.Probe.Flash) > 0 {
		v.Classes = append(v.Classes, "probe-flash")
	}
	if sameConn && len(c.Hist) > 0 {
		v.Classes = append(v.Classes, "probe-on-same-connection")
	}
	return v
}

func histSummary(c Case) string {
	var sb strings.Builder
	for _, h := range c.Hist {
		w := h.wire()
		if i := bytes.Index(w, []byte("\r\n")); i > 0 {
			w = w[:i]
		}
		fmt.Fprintf(&sb, "[%s flash=%q newconn=%v] ", w, h.Flash, h.NewConn)
	}
	return sb.String()
}

func firstDiff(a, b string) string {
	la, lb := strings.Split(a, "\n"), strings.Split(b, "\n")
	for i := 0; i < len(la) || i < len(lb); i++ {
		var x, y string
		if i < len(la) {
			x = la[i]
		}
		if i < len(lb) {
			y = lb[i]
		}
		if x != y {
			return fmt.Sprintf("after history: %q\nfresh        : %q", x, y)
		}
	}
	return ""
}

// ---- generator ------------------------------------------------------------------------------------------

var allActs = []string{"locals", "viewbind", "sitebind", "hdr", "redir", "redirinput", "redirprep", "redirback", "redirroute", "bindauto", "bindbody", "path", "method", "err", "status", "observe", "json", "render", "type", "sendfile", "sendfilemax", "sendfiledl"}

// assetPath: a small committed file served by the SendFile actions (the test binary runs in the package directory)
const assetPath = "testdata/asset.txt"

// flashes: well-formed message arrays, arrays of maps with missing fields, truncated encodings, arrays longer than
// their content
func validFlash(k, v string, lvl byte, old bool) []byte {
	b := []byte{0x84, 0xa3, 'k', 'e', 'y', 0xa0 | byte(len(k))}
	b = append(b, k...)
	b = append(b, 0xa5, 'v', 'a', 'l', 'u', 'e', 0xa0|byte(len(v)))
	b = append(b, v...)
	b = append(b, 0xa5, 'l', 'e', 'v', 'e', 'l', lvl)
	b = append(b, 0xaa, 'i', 's', 'O', 'l', 'd', 'I', 'n', 'p', 'u', 't')
	if old {
		b = append(b, 0xc3)
	} else {
		b = append(b, 0xc2)
	}
	return b
}

func genFlash(t *rapid.T, label string) []byte {
	switch rapid.IntRange(0, 7).Draw(t, label+"kind") {
	case 0:
		return append([]byte{0x91}, validFlash("secret", "alice-token", 0x21, false)...)
	case 1:
		return append(append([]byte{0x92}, validFlash("k1", "v1", 0x22, false)...), validFlash("old", "in", 0x23, true)...)
	case 2:
		return []byte{0x92, 0x80, 0x80} // two maps without any field
	case 3:
		return []byte{0x93, 0x81, 0xa3, 'k', 'e', 'y', 0xa1, 'x', 0x80, 0x80}
	case 4:
		f := append([]byte{0x91}, validFlash("secret", "alice-token", 0x21, false)...)
		return f[:rapid.IntRange(1, len(f)-1).Draw(t, label+"cut")]
	case 5:
		return []byte{0x95, 0x80} // announces more than it has
	case 6:
		return []byte{0x91, 0x82, 0xa5, 'l', 'e', 'v', 'e', 'l', 0x30, 0xaa, 'i', 's', 'O', 'l', 'd', 'I', 'n', 'p', 'u', 't', 0xc3}
	default:
		return rapid.SliceOfN(rapid.SampledFrom([]byte{0x90, 0x91, 0x92, 0x80, 0x81, 0xa1, 'x', 0xc3, 0x21, 0xa3, 'k', 'e', 'y'}), 1, 8).Draw(t, label+"raw")
	}
}

func genCase(t *rapid.T) Case {
	c := Case{Immutable: rapid.IntRange(0, 3).Draw(t, "immutable") == 0, AdaptorPanic: rapid.Bool().Draw(t, "adaptorpanic")}
	n := rapid.IntRange(0, 12).Draw(t, "nhist")
	for i := 0; i < n; i++ {
		h := HReq{Kind: "dirty", I: i + 1, Method: rapid.SampledFrom([]string{"GET", "POST", "PUT"}).Draw(t, "m"), P2: rapid.Bool().Draw(t, "p2"),
			NewConn: rapid.IntRange(0, 4).Draw(t, "newconn") == 0}
		if rapid.IntRange(0, 9).Draw(t, "unrouted") == 0 {
			h.Kind = "unrouted"
			if rapid.IntRange(0, 3).Draw(t, "uflash") != 0 {
				h.Flash = genFlash(t, "uf")
			}
			c.Hist = append(c.Hist, h)
			continue
		}
		if rapid.IntRange(0, 9).Draw(t, "rootreq") == 0 {
			h.Kind = "root"
			c.Hist = append(c.Hist, h)
			continue
		}
		if rapid.IntRange(0, 7).Draw(t, "malformed") == 0 {
			h.Kind, h.Mal = "malformed", rapid.SampledFrom([]string{"badline", "badheader", "bigheader", "badchunk", "badlength"}).Draw(t, "mal")
			c.Hist = append(c.Hist, h)
			continue
		}
		h.Acts = rapid.SliceOfN(rapid.SampledFrom(allActs), 0, 4).Draw(t, "acts")
		h.Host = rapid.SampledFrom([]string{"", "", "", "probe.test", "www.probe.test", "evil-probe.test", "PROBE.TEST", "probe.test:8080", "test"}).Draw(t, "host")
		if rapid.IntRange(0, 2).Draw(t, "hflash") == 0 {
			h.Flash = genFlash(t, "hf")
		}
		switch rapid.IntRange(0, 3).Draw(t, "body") {
		case 0:
			h.Form = h.Method != "GET"
		case 1:
			if h.Method != "GET" {
				h.Body = fmt.Sprintf(`{"a":"ja%d","n":%d}`, i, i)
			}
		}
		c.Hist = append(c.Hist, h)
	}
	c.Probe = Probe{P2: rapid.Bool().Draw(t, "pp2"), Query: rapid.SampledFrom([]string{"", "a=x", "n=bad", "a=x&b=1&b=2&n=7", "b=only", "sf=plain", "sf=max"}).Draw(t, "pq"),
		Redir: rapid.IntRange(0, 5).Draw(t, "predir") == 0, Headers: rapid.Bool().Draw(t, "phdr"), NewConn: rapid.IntRange(0, 3).Draw(t, "pnew") == 0,
		Method: rapid.SampledFrom([]string{"GET", "GET", "POST"}).Draw(t, "pm")}
	if rapid.IntRange(0, 1).Draw(t, "pflash") == 0 {
		c.Probe.Flash = genFlash(t, "pf")
	}
	c.Probe.Root = rapid.IntRange(0, 5).Draw(t, "proot") == 0
	if rapid.IntRange(0, 5).Draw(t, "prej") == 0 {
		c.Probe.Rejected = true
		c.Probe.Method = rapid.SampledFrom([]string{"POST", "PUT", "PROPFIND", "BREW"}).Draw(t, "prm") // also methods outside Config.RequestMethods
	}
	return c
}

var propIso = vk.Register(&vk.Prop[Case]{Property: property, Name: "history", Gen: genCase, Check: check, Quick: 6000, Thorough: 30000})

func TestHistory(t *testing.T) { propIso.Run(t) }

// ---- concurrent mix with taint tokens -------------------------------------------------------------------

var tokRe = regexp.MustCompile(`T\d+x\d+T`)

func TestTaint(t *testing.T) {
	conns, reqs := 16, 150
	if vk.Tier() == "thorough" {
		conns, reqs = 32, 600
	}
	// on record while the stress runs: a server that dies in the middle of it is attributed to this case
	vk.Journal(property, "taint", TaintCase{Note: "concurrent stress (connections, then in-process dispatch)"})
	defer vk.Unjournal()
	app := fiber.New(fiber.Config{Views: vk.Views{}, PassLocalsToViews: true})
	var bad, total int64
	var first atomic.Value
	app.Post("/t/:tok/:opt?", func(c fiber.Ctx) (err error) {
		tok := c.Params("tok")
		defer func() {
			// a context that is pulled away under its handler (served to another request at the same time) shows up
			// as a panic in whatever the handler touches next: that is a finding, not a reason to die
			if r := recover(); r != nil {
				atomic.AddInt64(&bad, 1)
				first.CompareAndSwap(nil, fmt.Sprintf("the handler of request %s panicked in the middle of its accessor calls: %v", tok, r))
				err = fiber.ErrInternalServerError
			}
		}()
		c.Locals("lk", "L"+tok)
		_ = c.ViewBind(fiber.Map{"vb": "V" + tok})
		obs := vk.Observe(c, "lk")
		c.Set("X-Own", tok)
		// response helpers that build their value in pooled buffers
		c.Links("http://example.com/list/"+strings.Repeat(tok, 8)+"?page=2", "next")
		c.Attachment("report-" + tok + ".pdf")
		if c.Query("redir") == "1" {
			return c.Redirect().With("fk", "F"+tok, 40).To("/x")
		}
		return c.Render("t", fiber.Map{"own": tok, "obs": strings.Join(obs, "\n")})
	})
	// files: one that exists and one that does not, served with the same options (one handler of the app's file cache)
	app.Get("/f/:tok", func(c fiber.Ctx) error { return c.SendFile(assetPath) })
	app.Get("/f404/:tok", func(c fiber.Ctx) error { return c.SendFile(assetPath + ".does-not-exist") })
	ln := fasthttputil.NewInmemoryListener()
	go func() { _ = app.Listener(ln, fiber.ListenConfig{DisableStartupMessage: true}) }()
	defer func() { _ = app.Shutdown() }()
	var wg sync.WaitGroup
	seed := vk.Seed()
	for g := 0; g < conns; g++ {
		wg.Add(1)
		go func(g int) {
			defer wg.Done()
			conn, err := ln.Dial()
			if err != nil {
				return
			}
			defer conn.Close()
			br := bufio.NewReader(conn)
			for i := 0; i < reqs; i++ {
				tok := fmt.Sprintf("T%dx%dT", g, i)
				h := (uint64(g)*1000003 + uint64(i)*7919 + seed) % 30
				opt := ""
				if h%3 == 0 {
					opt = "/O" + tok
				}
				redir := ""
				if h%5 == 0 {
					redir = "&redir=1"
				}
				flash := ""
				if h%2 == 0 {
					flash = "; fiber_flash=" + string(append([]byte{0x91}, validFlash("fk", "F"+tok, 0x21, false)...))
				} else if h%7 == 0 {
					flash = "; fiber_flash=\x92\x80\x80"
				}
				if h == 11 || h == 23 {
					// now and then a method the server does not implement (a scanner's PROPFIND, a typo): answered 501
					// without a handler, on the same pooled contexts
					if _, err := io.WriteString(conn, "BREW /t/"+tok+" HTTP/1.1\r\nHost: h\r\n\r\n"); err != nil {
						return
					}
					r501, err := http.ReadResponse(br, nil)
					if err != nil {
						return
					}
					_, _ = io.Copy(io.Discard, r501.Body)
					r501.Body.Close()
				}
				body := "a=B" + tok
				req := fmt.Sprintf("POST /t/%s%s?a=Q%s%s HTTP/1.1\r\nHost: h\r\nX-A: H%s\r\nContent-Type: application/x-www-form-urlencoded\r\nCookie: a=C%s%s\r\nContent-Length: %d\r\n\r\n%s", tok, opt, tok, redir, tok, tok, flash, len(body), body)
				if _, err := io.WriteString(conn, req); err != nil {
					return
				}
				resp, err := http.ReadResponse(br, nil)
				if err != nil {
					// the raw flash cookie makes net/http refuse some responses (open finding C12-a / C07-b): reconnect
					return
				}
				b, _ := io.ReadAll(resp.Body)
				resp.Body.Close()
				all := resp.Header.Get("X-Own") + "|" + string(b) + "|" + strings.Join(resp.Header.Values("Set-Cookie"), "|")
				atomic.AddInt64(&total, 1)
				for _, cand := range tokRe.FindAllString(all, -1) {
					if cand != tok {
						atomic.AddInt64(&bad, 1)
						first.CompareAndSwap(nil, fmt.Sprintf("request %s saw foreign token %s in %q", tok, cand, all))
					}
				}
				if !strings.Contains(all, tok) {
					atomic.AddInt64(&bad, 1)
					first.CompareAndSwap(nil, fmt.Sprintf("request %s does not see its own token in %q", tok, all))
				}
				d := uint64(g)<<32 | uint64(i)
				vk.Rec.Count("taint", d, true, []string{"concurrent-response"}, func() any { return map[string]string{"request": req[:80]} })
			}
		}(g)
	}
	wg.Wait()
	// second phase, without connections in between: many goroutines dispatch in process as fast as they can (what a
	// loaded server's workers do); a value that lives in a pooled buffer a moment too long shows up here
	h := app.Handler()
	workers, perWorker := 16, 6000
	if vk.Tier() == "thorough" {
		perWorker = 20000
	}
	for g := 0; g < workers; g++ {
		wg.Add(1)
		go func(g int) {
			defer wg.Done()
			for i := 0; i < perWorker; i++ {
				tok := fmt.Sprintf("T%dx%dT", 1000+g, i)
				if i%6 == 1 || i%6 == 4 {
					// a file request in between: a missing file is this request's 404 and nobody else's
					var freq fasthttp.Request
					want := 200
					freq.SetRequestURI("/f/" + tok)
					if i%6 == 4 {
						want = 404
						freq.SetRequestURI("/f404/" + tok)
					}
					ff := &fasthttp.RequestCtx{}
					ff.Init(&freq, &net.TCPAddr{IP: net.IPv4(10, 0, 0, 9), Port: 1234}, nil)
					h(ff)
					if got := ff.Response.StatusCode(); got != want {
						atomic.AddInt64(&bad, 1)
						first.CompareAndSwap(nil, fmt.Sprintf("file request %s (dispatched in process next to %d others) answered %d, want %d", freq.URI().Path(), workers-1, got, want))
					}
				}
				var req fasthttp.Request
				req.Header.SetMethod("POST")
				req.SetRequestURI("/t/" + tok + "?a=Q" + tok)
				req.Header.Set("X-A", "H"+tok)
				fctx := &fasthttp.RequestCtx{}
				fctx.Init(&req, &net.TCPAddr{IP: net.IPv4(10, 0, 0, 9), Port: 1234}, nil)
				h(fctx)
				all := string(fctx.Response.Header.Peek("X-Own")) + "|" + string(fctx.Response.Header.Peek("Content-Disposition")) + "|" + string(fctx.Response.Header.Peek("Link")) + "|" + string(fctx.Response.Body())
				atomic.AddInt64(&total, 1)
				if st := fctx.Response.StatusCode(); st != 200 {
					atomic.AddInt64(&bad, 1)
					first.CompareAndSwap(nil, fmt.Sprintf("request %s (dispatched in process next to %d others) answered %d, its handler rendered a page (200)", tok, workers-1, st))
				}
				for _, cand := range tokRe.FindAllString(all, -1) {
					if cand != tok {
						atomic.AddInt64(&bad, 1)
						first.CompareAndSwap(nil, fmt.Sprintf("request %s (dispatched in process next to %d others) saw foreign token %s in %q", tok, workers-1, cand, all))
					}
				}
				if !strings.Contains(string(fctx.Response.Header.Peek("Content-Disposition")), "report-"+tok+".pdf") {
					atomic.AddInt64(&bad, 1)
					first.CompareAndSwap(nil, fmt.Sprintf("request %s: Content-Disposition is %q, want its own file name report-%s.pdf", tok, fctx.Response.Header.Peek("Content-Disposition"), tok))
				}
			}
		}(g)
	}
	wg.Wait()
	if bad > 0 {
		path := vk.SaveReplay(propTaint, TaintCase{Note: fmt.Sprint(first.Load())}, fmt.Sprint(first.Load()))
		vk.Rec.Violation("taint", path)
		t.Errorf("VIOLATION-CANDIDATE property=%s test=taint replay=%s\n%v (%d of %d responses)", property, path, first.Load(), bad, total)
	}
}

type TaintCase struct{ Note string }

// the taint stress is a timing based exploration; its replay file documents the observation only
var propTaint = vk.Register(&vk.Prop[TaintCase]{Property: property, Name: "taint", Gen: func(*rapid.T) TaintCase { return TaintCase{} },
	Check: func(TaintCase) vk.Verdict { return vk.Verdict{Skip: true} }, Quick: 1, Thorough: 1})

// ---- the same histories served through the net/http adaptor (its own pool of request contexts) ---------------------

// serveHTTP turns the request's wire form into an http.Request, serves it through adaptor.FiberApp and returns a
// canonical text of the recorded response ("" , false: net/http does not accept this request text)
func serveHTTP(h http.Handler, raw []byte) (string, bool) {
	req, err := http.ReadRequest(bufio.NewReader(bytes.NewReader(raw)))
	if err != nil {
		return "", false
	}
	req.RemoteAddr = "192.0.2.7:4711"
	rec := httptest.NewRecorder()
	panicked := func() (p bool) {
		defer func() { p = recover() != nil }() // what net/http's server does with a panicking handler
		h.ServeHTTP(rec, req)
		return false
	}()
	if panicked {
		return "handler panicked", true
	}
	var lines []string
	for k, vs := range rec.Header() {
		if k == "Date" {
			continue
		}
		for _, v := range vs {
			lines = append(lines, k+": "+expiresRe.ReplaceAllString(v, "expires=X"))
		}
	}
	sort.Strings(lines)
	return fmt.Sprintf("%d\n%s\n\n%s", rec.Code, strings.Join(lines, "\n"), rec.Body.String()), true
}

func checkAdaptor(c Case) vk.Verdict {
	if !carriable(c.Probe.Flash) {
		return vk.Verdict{Skip: true}
	}
	// the adaptor's request contexts live in a package-level sync.Pool shared by every app of the process: two garbage
	// collections empty it, so that the fresh app below really starts from nothing and the case is self-contained
	runtime.GC()
	runtime.GC()
	fresh := adaptor.FiberApp(newApp(c))
	exp, ok := serveHTTP(fresh, c.Probe.wire())
	if !ok {
		return vk.Verdict{Skip: true}
	}
	runtime.GC()
	runtime.GC()
	h := adaptor.FiberApp(newApp(c))
	served := 0
	for _, hr := range c.Hist {
		if hr.Kind == "malformed" || !carriable(hr.Flash) {
			continue // net/http refuses these before the adaptor sees them
		}
		if c.AdaptorPanic {
			// the handlers that set locals panic afterwards
			hr.Acts = append([]string{}, hr.Acts...)
			for i, a := range hr.Acts {
				if a == "locals" {
					hr.Acts[i] = "localspanic"
				}
			}
		}
		if _, ok := serveHTTP(h, hr.wire()); ok {
			served++
		}
	}
	got, _ := serveHTTP(h, c.Probe.wire())
	if got != exp {
		return vk.Failf("through adaptor.FiberApp the probe's observation depends on the requests served before it (immutable=%v):\nhistory: %q\nprobe: %q\n--- after history ---\n%s\n--- on a fresh app ---\n%s\n--- first difference ---\n%s",
			c.Immutable, histSummary(c), c.Probe.wire(), got, exp, firstDiff(got, exp))
	}
	v := vk.Verdict{NonTrivial: served > 0, Classes: []string{"through-adaptor"}}
	for _, hr := range c.Hist {
		for _, a := range hr.Acts {
			v.Classes = append(v.Classes, "adaptor-act:"+a)
		}
	}
	return v
}

var propAdaptor = vk.Register(&vk.Prop[Case]{Property: property, Name: "adaptor", Gen: genCase, Check: checkAdaptor, Quick: 300, Thorough: 3000})

func TestAdaptor(t *testing.T) { propAdaptor.Run(t) }
