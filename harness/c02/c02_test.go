package c02

import (
	"fmt"
	"math/big"
	"regexp"
	"strconv"
	"strings"
	"testing"
	"time"
	"unicode"

	"github.com/gofiber/fiber/v3"
	"pgregory.net/rapid"

	"verifharness/vk"
)

const property = "C02"

func TestMain(m *testing.M) { vk.Main(m, property) }

func TestAAACorpus(t *testing.T)    { vk.TestCorpus(t, property) }
func TestAAAWitnesses(t *testing.T) { vk.TestWitnesses(t, property) }
func TestReplay(t *testing.T)       { vk.TestReplay(t) }

type Cons struct {
	Name string
	Args []string `json:",omitempty"`
}

func (c Cons) src() string {
	if len(c.Args) == 0 {
		return c.Name
	}
	if c.Name == "regex" {
		return c.Name + "(" + c.Args[0] + ")"
	}
	a := make([]string, len(c.Args))
	for i, x := range c.Args {
		a[i] = strings.NewReplacer("-", `\-`).Replace(x) // the docs escape '-' in datetime layouts
	}
	return c.Name + "(" + strings.Join(a, ",") + ")"
}

var (
	reInt  = regexp.MustCompile(`^[+-]?[0-9]+$`)
	reGUID = regexp.MustCompile(`(?i)^[0-9a-f]{8}-[0-9a-f]{4}-[0-9a-f]{4}-[0-9a-f]{4}-[0-9a-f]{12}$`)
)

// definitelyViolates is written from the documentation table and errs on the permissive side wherever the docs are
// silent (byte vs. rune length, integer width, float syntax, guid spellings).
func (c Cons) definitelyViolates(v string) bool {
	if f, ok := overrides[c.Name]; ok && overridden[c.Name] {
		return !f(v)
	}
	isInt := reInt.MatchString(v)
	atoi := func(s string) int { n, _ := strconv.Atoi(s); return n }
	// integer comparisons of any width (a value beyond 64 bits is still larger than max(50))
	big := func(s string) *big.Int { n, _ := new(big.Int).SetString(strings.TrimPrefix(s, "+"), 10); return n }
	lt := func(a, b string) bool { return big(a).Cmp(big(b)) < 0 }
	switch c.Name {
	case "int":
		return !reInt.MatchString(v)
	case "bool":
		_, err := strconv.ParseBool(v)
		return err != nil
	case "float":
		_, err := strconv.ParseFloat(v, 64)
		return err != nil
	case "alpha":
		for _, r := range v {
			if !unicode.IsLetter(r) {
				return true
			}
		}
		return false
	case "guid":
		return !reGUID.MatchString(v) && len(v) != 32 && len(v) != 38 && len(v) != 45
	case "minLen", "minlen": // (the all-lower-case spellings are exported constants of the package as well)
		return len(v) < atoi(c.Args[0]) && len([]rune(v)) < atoi(c.Args[0])
	case "maxLen", "maxlen":
		return len(v) > atoi(c.Args[0]) && len([]rune(v)) > atoi(c.Args[0])
	case "len":
		return len(v) != atoi(c.Args[0]) && len([]rune(v)) != atoi(c.Args[0])
	case "betweenLen", "betweenlen":
		l, r := len(v), len([]rune(v))
		lo, hi := atoi(c.Args[0]), atoi(c.Args[1])
		return (l < lo || l > hi) && (r < lo || r > hi)
	case "min":
		return !isInt || lt(v, c.Args[0])
	case "max":
		return !isInt || lt(c.Args[0], v)
	case "range":
		return !isInt || lt(v, c.Args[0]) || lt(c.Args[1], v)
	case "datetime":
		_, err := time.Parse(c.Args[0], v)
		return err != nil
	case "regex":
		re, err := regexp.Compile(c.Args[0])
		return err == nil && !re.MatchString(v)
	case "even", "isEven":
		return !isInt || big(v).Bit(0) != 0
	}
	return false
}

type Tok struct {
	Lit  string `json:",omitempty"`
	Kind string // lit | named | opt | star | plus
	Name string `json:",omitempty"`
	Cs   []Cons `json:",omitempty"`
}

func (p Tok) src() string {
	switch p.Kind {
	case "lit":
		return strings.NewReplacer(":", `\:`, "*", `\*`, "+", `\+`, "?", `\?`).Replace(p.Lit)
	case "star":
		return "*"
	case "plus":
		return "+"
	}
	s := ":" + p.Name
	if len(p.Cs) > 0 {
		var cc []string
		for _, c := range p.Cs {
			cc = append(cc, c.src())
		}
		s += "<" + strings.Join(cc, ";") + ">"
	}
	if p.Kind == "opt" {
		s += "?"
	}
	return s
}

type Case struct {
	CS, Strict, Unesc bool
	Use               bool
	Toks              []Tok
	Pattern           string
	Path              string     // request path, wire form
	Filling           []string   `json:",omitempty"` // values the path was built from (pool i), nil for look-alikes / noise
	Kind              string     // filling | patterntext | noise
	Prior             []PriorReq `json:",omitempty"` // requests served by the same app (pooled ctx) before the main one
	Override          []string   `json:",omitempty"` // built-in constraint names under which the app registered a custom constraint of its own
	Fillers           int        `json:",omitempty"` // mounted: the sub-app first registers this many other custom constraints and a route that uses one of them; the root app has a custom constraint of its own
	AfterNext         bool       `json:",omitempty"` // Use only: the handler calls Next and reads its parameters again afterwards; a route of another method matches the path
	Decoy             bool       `json:",omitempty"` // a near-twin of the pattern (constraint data in the other letter case) is registered directly in front of it, with a handler that calls Next
	Mounted           bool       `json:",omitempty"` // the pattern and the custom constraints are registered on a sub-app that is mounted at "/" of a plain root app
}

// PriorReq is an earlier request on the same app; the same oracle applies to it.
type PriorReq struct {
	Path    string
	Filling []string `json:",omitempty"`
}

// overrides: custom constraints an application may register under the name of a built-in one; the documentation says
// the registered constraint is then the one that is used. overridden is the set the current case registered.
var overrides = map[string]func(string) bool{
	"int":   func(v string) bool { return regexp.MustCompile(`^[0-9]+$`).MatchString(v) }, // digits only, no sign
	"bool":  func(v string) bool { return v == "true" || v == "false" },
	"alpha": func(v string) bool { return regexp.MustCompile(`^[a-zA-Z]+$`).MatchString(v) },
}
var overridden = map[string]bool{}

func setOverridden(names []string) {
	overridden = map[string]bool{}
	for _, n := range names {
		overridden[n] = true
	}
}

type overrideC struct{ name string }

func (o overrideC) Name() string                           { return o.name }
func (o overrideC) Execute(param string, _ ...string) bool { return overrides[o.name](param) }

// fillerC: a custom constraint that accepts everything (it only occupies a place in the app's list)
type fillerC struct{ name string }

func (f fillerC) Name() string                 { return f.name }
func (fillerC) Execute(string, ...string) bool { return true }

type evenC struct{}

func (evenC) Name() string { return "even" }
func (evenC) Execute(param string, _ ...string) bool {
	n, err := strconv.Atoi(param)
	return err == nil && n%2 == 0
}

// evenCapC is the same constraint under a name with a capital letter (names are case-sensitive text too)
type evenCapC struct{ evenC }

func (evenCapC) Name() string { return "isEven" }

// swapConstraintCase returns the pattern with the letters inside the parentheses of its constraints in the other case.
func swapConstraintCase(p string) string {
	b := []byte(p)
	inCons, inArgs := false, false
	for i := 0; i < len(b); i++ {
		switch ch := b[i]; {
		case ch == '\\':
			i++
		case ch == '<' && !inArgs:
			inCons = true
		case ch == '>' && !inArgs:
			inCons = false
		case ch == '(' && inCons:
			inArgs = true
		case ch == ')' && inArgs:
			inArgs = false
		case inArgs && ch >= 'a' && ch <= 'z':
			b[i] = ch - 32
		case inArgs && ch >= 'A' && ch <= 'Z':
			b[i] = ch + 32
		}
	}
	return string(b)
}

func wireEsc(p string) string {
	return strings.NewReplacer("%", "%25", "?", "%3F", "#", "%23", " ", "%20").Replace(p)
}

func patternOf(toks []Tok) string {
	var sb strings.Builder
	for _, t := range toks {
		sb.WriteString(t.src())
	}
	return sb.String()
}

// acceptableReconstructions substitutes the values into the pattern; every empty optional parameter / '*' may drop the
// '/' in front of it (the pattern makes that slash optional).
func acceptableReconstructions(toks []Tok, vals []string) []string {
	outs := []string{""}
	vi := 0
	for _, t := range toks {
		var next []string
		if t.Kind == "lit" {
			for _, o := range outs {
				next = append(next, o+t.Lit)
			}
		} else {
			v := vals[vi]
			vi++
			for _, o := range outs {
				next = append(next, o+v)
				if v == "" && (t.Kind == "opt" || t.Kind == "star") && strings.HasSuffix(o, "/") {
					next = append(next, o[:len(o)-1])
				}
			}
		}
		outs = next
	}
	// a final literal ending in '/' has an optional slash in fiber's pattern semantics (also under StrictRouting)
	if last := toks[len(toks)-1]; last.Kind == "lit" && strings.HasSuffix(last.Lit, "/") {
		for _, o := range append([]string(nil), outs...) {
			if len(o) > 1 {
				outs = append(outs, o[:len(o)-1])
			}
		}
	}
	return outs
}

func check(c Case) vk.Verdict {
	if strings.ContainsAny(c.Path, "?#") || c.Path == "" || c.Path[0] != '/' {
		return vk.Verdict{Skip: true}
	}
	app := fiber.New(fiber.Config{CaseSensitive: c.CS, StrictRouting: c.Strict, UnescapePath: c.Unesc})
	root := app
	if c.Mounted {
		app = fiber.New(fiber.Config{CaseSensitive: c.CS, StrictRouting: c.Strict, UnescapePath: c.Unesc})
		if c.Fillers > 0 {
			root.RegisterCustomConstraint(fillerC{"rootOnly"})
			for i := 0; i < c.Fillers; i++ {
				app.RegisterCustomConstraint(fillerC{fmt.Sprintf("f%d", i)})
			}
			app.Get("/zz-filler/:d<f0>", func(fiber.Ctx) error { return nil })
		}
	}
	app.RegisterCustomConstraint(evenC{})
	app.RegisterCustomConstraint(evenCapC{})
	setOverridden(c.Override)
	defer setOverridden(nil)
	for _, n := range c.Override {
		app.RegisterCustomConstraint(overrideC{n})
	}
	hit := 0
	var got, after []string
	afterSet := false
	var gotPath, routePath string
	h := func(ctx fiber.Ctx) error {
		hit++
		got = got[:0]
		for _, n := range ctx.Route().Params {
			got = append(got, strings.Clone(ctx.Params(n)))
		}
		gotPath = strings.Clone(ctx.Path())
		routePath = ctx.Route().Path
		if c.Use && c.AfterNext {
			// a middleware that looks at its parameters again when the rest of the chain is done (no later route of the
			// method matches here; one of another method does, so the answer is 405)
			err := ctx.Next()
			after = after[:0]
			for _, n := range ctx.Route().Params {
				after = append(after, strings.Clone(ctx.Params(n)))
			}
			afterSet = true
			return err
		}
		return nil
	}
	func() {
		defer func() {
			if r := recover(); r != nil {
				hit = -1
			}
		}()
		if dp := swapConstraintCase(c.Pattern); c.Decoy && dp != c.Pattern {
			// directly in front of the pattern, its near-twin: the same text except for the letter case of the constraint
			// data (which is case-sensitive whatever the routing configuration says); its handler passes on
			func() {
				defer func() { _ = recover() }() // (a twin that is not a valid pattern is simply not there)
				pass := func(ctx fiber.Ctx) error { return ctx.Next() }
				if c.Use {
					app.Use(dp, pass)
				} else {
					app.Get(dp, pass)
				}
			}()
		}
		if c.Use {
			app.Use(c.Pattern, h)
		} else {
			app.Get(c.Pattern, h)
		}
	}()
	if hit == -1 {
		return vk.Failf("registering the documented-syntax pattern %q panicked", c.Pattern)
	}
	if c.Use && c.AfterNext {
		app.Post("/:vkA/:vkB?/:vkC?/*", func(fiber.Ctx) error { return nil }) // another method's route that matches almost anything
	}
	if c.Mounted {
		root.Use("/", app)
		app = root
	}
	main := c
	var total vk.Verdict
	for i := 0; i <= len(main.Prior); i++ {
		c := main
		c.Prior = nil
		if i < len(main.Prior) {
			c.Path, c.Filling, c.Kind = main.Prior[i].Path, main.Prior[i].Filling, "filling"
			if strings.ContainsAny(c.Path, "?#") || c.Path == "" || c.Path[0] != '/' {
				continue
			}
		}
		hit, afterSet = 0, false
		v := func() vk.Verdict {
			resp := vk.Do(app, "GET", c.Path)
			status := resp.Response.StatusCode()

			var ptoks []Tok
			constrained := false
			for _, t := range c.Toks {
				if t.Kind != "lit" {
					ptoks = append(ptoks, t)
					if len(t.Cs) > 0 {
						constrained = true
					}
				}
			}
			v := vk.Verdict{Classes: []string{"kind:" + c.Kind}}
			ctx := fmt.Sprintf("pattern %q (use=%v cs=%v strict=%v unesc=%v) path %q", c.Pattern, c.Use, c.CS, c.Strict, c.Unesc, c.Path)

			if hit == 0 {
				v.Classes = append(v.Classes, "rejected")
				if !c.Use && status != 404 {
					return vk.Failf("%s: handler did not run but status is %d, want the not-found handling (404)", ctx, status)
				}
				if c.Kind == "filling" && forcedViolation(c) {
					v.NonTrivial = true
					v.Classes = append(v.Classes, "violating-filling-rejected")
				}
				return v
			}
			v.Classes = append(v.Classes, "ran")
			if afterSet && strings.Join(after, "\x00") != strings.Join(got, "\x00") {
				return vk.Failf("%s: the middleware read its parameters as %q, and after Next() returned (no later route of the method matched) as %q", ctx, got, after)
			}
			if hit > 1 {
				return vk.Failf("%s: handler ran %d times", ctx, hit)
			}
			if routePath != c.Pattern && "/"+routePath != "/"+c.Pattern {
				// Route().Path is informative only
				_ = routePath
			}
			// (0) a filling whose forced assignment violates a constraint must not reach the handler
			if c.Kind == "filling" && forcedViolation(c) {
				return vk.Failf("%s: the only possible assignment %q violates a declared constraint but the handler ran with Params %q", ctx, c.Filling, got)
			}
			if len(got) != len(ptoks) {
				return vk.Failf("%s: %d parameter values for %d parameters", ctx, len(got), len(ptoks))
			}
			// (1) reconstruction
			fold := func(s string) string {
				if !c.CS {
					s = strings.ToLower(s)
				}
				if !c.Strict && len(s) > 1 {
					s = strings.TrimRight(s, "/")
					if s == "" {
						s = "/"
					}
				}
				return s
			}
			gp := fold(gotPath)
			okRec := false
			recs := acceptableReconstructions(c.Toks, got)
			for _, r := range recs {
				fr := fold(r)
				if fr == gp {
					okRec = true
					break
				}
				if c.Use && strings.HasPrefix(gp, fr) {
					okRec = true
					break
				}
			}
			if !okRec {
				return vk.Failf("%s: substituting Params %q into the pattern gives %q, which does not reproduce the request path %q", ctx, got, recs, gotPath)
			}
			// (2),(3) constraints, emptiness, slashes
			for i, t := range ptoks {
				val := got[i]
				if val == "" && (t.Kind == "named" || t.Kind == "plus") {
					return vk.Failf("%s: required parameter %s is empty", ctx, t.Name)
				}
				if (t.Kind == "named" || t.Kind == "opt") && strings.Contains(val, "/") {
					return vk.Failf("%s: named parameter %s spans a '/': %q", ctx, t.Name, val)
				}
				if val == "" {
					continue
				}
				for _, cs := range t.Cs {
					if cs.definitelyViolates(val) {
						return vk.Failf("%s: value %q of %s violates the declared constraint %s but the handler ran", ctx, val, t.Name, cs.src())
					}
				}
			}
			v.NonTrivial = constrained || c.Kind == "patterntext"
			if constrained {
				v.Classes = append(v.Classes, "ran-constrained")
			}
			return v
		}()
		if v.Fail != "" {
			if i < len(main.Prior) {
				v.Fail = fmt.Sprintf("(request %d of %d on one app) %s", i+1, len(main.Prior)+1, v.Fail)
			} else if len(main.Prior) > 0 {
				v.Fail = fmt.Sprintf("(after %d earlier requests on the same app: %+v) %s", len(main.Prior), main.Prior, v.Fail)
			}
			return v
		}
		total.NonTrivial = total.NonTrivial || v.NonTrivial
		total.Classes = append(total.Classes, v.Classes...)
	}
	if len(main.Prior) > 0 {
		total.Classes = append(total.Classes, "sequence")
	}
	return total
}

// forcedViolation: the path is an exact filling whose segmentation is unique (all parameters named, each followed by
// the end or a literal starting with '/', values without delimiter characters, no optional empty) and at least one
// value definitely violates one of its constraints.
func forcedViolation(c Case) bool {
	if c.Filling == nil || c.Use {
		return false
	}
	vi := 0
	viol := false
	for i, t := range c.Toks {
		if t.Kind == "lit" {
			continue
		}
		if t.Kind != "named" {
			return false
		}
		if i+1 < len(c.Toks) && !strings.HasPrefix(c.Toks[i+1].Lit, "/") {
			return false
		}
		if i > 0 && !strings.HasSuffix(c.Toks[i-1].Lit, "/") {
			return false
		}
		v := c.Filling[vi]
		vi++
		if v == "" || strings.ContainsAny(v, "/-.%?# ") {
			return false
		}
		for _, r := range v {
			if r > 127 {
				return false
			}
		}
		if !c.CS {
			// values are matched case-insensitively but reported in original case; constraints see the original
		}
		for _, cs := range t.Cs {
			if cs.definitelyViolates(v) {
				viol = true
			}
		}
	}
	return viol
}

// ---- generator ------------------------------------------------------------------------------------------

var consPool = []Cons{{"int", nil}, {"bool", nil}, {"float", nil}, {"alpha", nil}, {"guid", nil}, {"minLen", []string{"2"}}, {"maxLen", []string{"3"}},
	{"len", []string{"2"}}, {"betweenLen", []string{"2", "4"}}, {"min", []string{"5"}}, {"max", []string{"50"}}, {"range", []string{"10", "20"}},
	{"datetime", []string{"2006-01-02"}}, {"regex", []string{`^[abc]+x?$`}}, {"regex", []string{`[a-c]+`}}, {"regex", []string{`^\d{2}-\d{2}$`}},
	{"regex", []string{`^[a-z.]+$`}}, {"regex", []string{`^a/b$`}}, {"even", nil}, {"isEven", nil},
	// constraint data is case-sensitive text whatever the routing configuration says
	{"regex", []string{`^\D+$`}}, {"regex", []string{`^[A-Z]+$`}}, {"regex", []string{`^\w\W$`}}, {"datetime", []string{"Jan-02"}},
	{"minlen", []string{"3"}}, {"maxlen", []string{"2"}}, {"betweenlen", []string{"2", "3"}}}

var valPool = []string{"1", "12", "15", "7", "100", "-3", "+4", "true", "x", "ab", "abc", "abcd", "1.5", "2020-02-03",
	"CD2C1638-1638-72D5-1638-DEADBEEF1638", "a1", "é", "ééé", "0", "18", "a-b", "a.b", "", "12a", ":id", "<int>", "12-34", "b", "cab", "a/b", "16", "4", "99999999999999999999",
	// letters whose Unicode lower-case form has another byte length (case-insensitive routing must not shift offsets)
	"ABC", "Feb-03", "a!", "XY",
	"9223372036854775807", "9223372036854775808", "9999999999999999999", "-9223372036854775809", "+9223372036854775808", "18446744073709551616",
	"\u212a12", "\u2126x", "\u0130b", "\u023aab", "x\u212a"}

var firstLits = []string{"/", "/u", "/user/", "/a-", "/us/", "/v1/"}
var midLits = []string{"/", "/x", "-", ".", "/y/", "-z", "/x/", "/v1\x00", "/-"}

func genToks(t *rapid.T) []Tok {
	toks := []Tok{{Kind: "lit", Lit: rapid.SampledFrom(firstLits).Draw(t, "l0")}}
	np := rapid.IntRange(1, 3).Draw(t, "np")
	adjacent := false
	for i := 0; i < np; i++ {
		k := rapid.SampledFrom([]string{"named", "named", "named", "opt", "star", "plus"}).Draw(t, "kind")
		if adjacent {
			k = rapid.SampledFrom([]string{"named", "named", "opt"}).Draw(t, "kindadj")
		}
		adjacent = false
		p := Tok{Kind: k, Name: fmt.Sprintf("p%d", i)}
		if k == "named" || k == "opt" {
			nc := rapid.IntRange(0, 3).Draw(t, "nc")
			for j := 0; j < nc; j++ {
				p.Cs = append(p.Cs, rapid.SampledFrom(consPool).Draw(t, "c"))
			}
		}
		toks = append(toks, p)
		if i < np-1 && (k == "named" || k == "opt") && rapid.IntRange(0, 7).Draw(t, "adjacent") == 0 {
			adjacent = true
			continue // the next parameter follows directly ("/:a:b"): every parameter in front of another one takes one character
		}
		if i < np-1 || rapid.Bool().Draw(t, "tail") {
			l := rapid.SampledFrom(midLits).Draw(t, "lit")
			l = strings.ReplaceAll(l, "\x00", "")
			toks = append(toks, Tok{Kind: "lit", Lit: l})
		}
	}
	return toks
}

func satisfying(t *rapid.T, tk Tok) string {
	// try to find a pool value that violates none of the constraints (construction over rejection: bounded scan)
	start := rapid.IntRange(0, len(valPool)-1).Draw(t, "vstart")
	for i := 0; i < len(valPool); i++ {
		v := valPool[(start+i)%len(valPool)]
		if v == "" {
			continue
		}
		ok := true
		for _, c := range tk.Cs {
			if c.definitelyViolates(v) {
				ok = false
			}
		}
		if (tk.Kind == "named" || tk.Kind == "opt") && strings.Contains(v, "/") {
			ok = false
		}
		if ok {
			return v
		}
	}
	return "x"
}

func genCase(t *rapid.T) Case {
	c := Case{CS: rapid.Bool().Draw(t, "cs"), Strict: rapid.Bool().Draw(t, "strict"), Unesc: rapid.Bool().Draw(t, "unesc"),
		Use: rapid.IntRange(0, 4).Draw(t, "use") == 0}
	if rapid.IntRange(0, 3).Draw(t, "override") == 0 {
		c.Override = rapid.SliceOfNDistinct(rapid.SampledFrom([]string{"int", "bool", "alpha"}), 1, 2, rapid.ID[string]).Draw(t, "overridden")
	}
	c.Decoy = rapid.IntRange(0, 2).Draw(t, "decoy") == 0
	c.AfterNext = c.Use && rapid.Bool().Draw(t, "afternext")
	c.Mounted = rapid.IntRange(0, 4).Draw(t, "mounted") == 0
	if c.Mounted {
		c.Fillers = rapid.SampledFrom([]int{0, 0, 1, 2, 3, 5, 6}).Draw(t, "fillers")
	}
	setOverridden(c.Override) // value generation below asks the constraint model
	defer setOverridden(nil)
	c.Toks = genToks(t)
	c.Pattern = patternOf(c.Toks)
	switch rapid.SampledFrom([]string{"filling", "filling", "filling", "filling", "patterntext", "noise"}).Draw(t, "pathkind") {
	case "filling":
		c.Kind = "filling"
		var pb strings.Builder
		mode := rapid.SampledFrom([]string{"sat", "sat", "any"}).Draw(t, "fillmode")
		for _, tk := range c.Toks {
			if tk.Kind == "lit" {
				pb.WriteString(tk.Lit)
				continue
			}
			var v string
			if mode == "sat" && rapid.IntRange(0, 4).Draw(t, "violate") != 0 {
				v = satisfying(t, tk)
			} else {
				v = rapid.SampledFrom(valPool).Draw(t, "v")
			}
			c.Filling = append(c.Filling, v)
			pb.WriteString(v)
		}
		p := pb.String()
		if c.Use {
			p += rapid.SampledFrom([]string{"", "/more", "/"}).Draw(t, "suffix")
		}
		if rapid.IntRange(0, 7).Draw(t, "upper") == 0 {
			p = strings.ToUpper(p)
			c.Filling = nil // no longer an exact filling
		}
		c.Path = p
	case "patterntext":
		c.Kind = "patterntext"
		p := c.Pattern
		switch rapid.IntRange(0, 5).Draw(t, "near") {
		case 0:
			p = strings.ToUpper(p)
		case 1:
			p += rapid.SampledFrom([]string{"/", "/x", "x"}).Draw(t, "sfx")
		case 2:
			if len(p) > 2 {
				i := rapid.IntRange(1, len(p)-1).Draw(t, "alter")
				p = p[:i] + "9" + p[i+1:]
			}
		case 3:
			p = strings.ReplaceAll(p, `\`, "")
		}
		c.Path = p
	default:
		c.Kind = "noise"
		c.Path = rapid.SampledFrom([]string{"/", "/u", "/user", "/user/", "/user//", "/u/-/", "/a-", "/a--", "/u/./x", "/user/x/", "/a-.", "/us//x", "/v1/x/x/x", "/-", "/."}).Draw(t, "noise")
	}
	if c.Path == "" {
		c.Path = "/"
	}
	if c.Path[0] != '/' {
		c.Path = "/" + c.Path
	}
	c.Path = wireEsc(c.Path)
	if !c.Unesc && strings.Contains(c.Path, "%") {
		c.Filling = nil // handler sees the encoded text, not the filling
	}
	// earlier requests on the same app (the pooled ctx and its buffers are re-used): fillings, often differing from the
	// main request in a single character of a single value (same length, same offset)
	if c.Kind == "filling" && c.Filling != nil && rapid.IntRange(0, 2).Draw(t, "prior") == 0 {
		np := rapid.IntRange(1, 3).Draw(t, "nprior")
		for k := 0; k < np; k++ {
			vals := append([]string(nil), c.Filling...)
			if len(vals) > 0 {
				j := rapid.IntRange(0, len(vals)-1).Draw(t, "pj")
				switch rapid.IntRange(0, 2).Draw(t, "pmode") {
				case 0: // a satisfying value of the same length if one exists
					tkIdx := -1
					n := 0
					for ti, tk := range c.Toks {
						if tk.Kind != "lit" {
							if n == j {
								tkIdx = ti
							}
							n++
						}
					}
					for _, cand := range valPool {
						if len(cand) == len(vals[j]) && cand != vals[j] && cand != "" {
							ok := true
							for _, cs := range c.Toks[tkIdx].Cs {
								if cs.definitelyViolates(cand) {
									ok = false
								}
							}
							if ok {
								vals[j] = cand
								break
							}
						}
					}
				case 1:
					vals[j] = satisfying(t, Tok{Kind: "named"})
				default:
					vals[j] = rapid.SampledFrom(valPool).Draw(t, "pv")
				}
			}
			var pb strings.Builder
			vi := 0
			for _, tk := range c.Toks {
				if tk.Kind == "lit" {
					pb.WriteString(tk.Lit)
				} else {
					pb.WriteString(vals[vi])
					vi++
				}
			}
			pp := wireEsc(pb.String())
			pr := PriorReq{Path: pp, Filling: vals}
			if !c.Unesc && strings.Contains(pp, "%") {
				pr.Filling = nil
			}
			c.Prior = append(c.Prior, pr)
		}
	}
	return c
}

var propSound = vk.Register(&vk.Prop[Case]{
	Property: property, Name: "sound", Gen: genCase, Check: check, Classify: classify,
	Quick: 60000, Thorough: 400000,
})

func TestSound(t *testing.T) { propSound.Run(t) }

func classify(c Case, fail string) string { return "" }
func FuzzSound(f *testing.F)              { propSound.Fuzz(f) }
