package c11

import (
	"fmt"
	"io"
	"math"
	"net"
	"net/url"
	"reflect"
	"strconv"
	"strings"
	"sync"
	"testing"
	"time"

	"github.com/gofiber/fiber/v3"
	"github.com/gofiber/fiber/v3/client"
	"github.com/valyala/fasthttp/fasthttputil"
	"pgregory.net/rapid"

	"verifharness/vk"
)

const property = "C11"

func TestMain(m *testing.M) { vk.Main(m, property) }

func TestAAACorpus(t *testing.T)    { vk.TestCorpus(t, property) }
func TestAAAWitnesses(t *testing.T) { vk.TestWitnesses(t, property) }
func TestReplay(t *testing.T)       { vk.TestReplay(t) }

// V has every supported field kind and a tag for every source (client side: param/form/cookie/path, server side:
// query/form/header/cookie/uri/json/xml/cbor).
type V struct {
	S   string    `param:"s" query:"s" form:"s" header:"X-S" cookie:"s" path:"s" uri:"s" json:"s" xml:"s" cbor:"s"`
	I   int       `param:"i" query:"i" form:"i" header:"X-I" cookie:"i" path:"i" uri:"i" json:"i" xml:"i" cbor:"i"`
	I8  int8      `param:"i8" query:"i8" form:"i8" header:"X-I8" cookie:"i8" json:"i8" xml:"i8" cbor:"i8"`
	I16 int16     `param:"i16" query:"i16" form:"i16" header:"X-I16" cookie:"i16" json:"i16" xml:"i16" cbor:"i16"`
	I32 int32     `param:"i32" query:"i32" form:"i32" header:"X-I32" cookie:"i32" json:"i32" xml:"i32" cbor:"i32"`
	I64 int64     `param:"i64" query:"i64" form:"i64" header:"X-I64" cookie:"i64" json:"i64" xml:"i64" cbor:"i64"`
	U   uint      `param:"u" query:"u" form:"u" header:"X-U" cookie:"u" json:"u" xml:"u" cbor:"u"`
	U8  uint8     `param:"u8" query:"u8" form:"u8" header:"X-U8" cookie:"u8" json:"u8" xml:"u8" cbor:"u8"`
	U16 uint16    `param:"u16" query:"u16" form:"u16" header:"X-U16" cookie:"u16" json:"u16" xml:"u16" cbor:"u16"`
	U32 uint32    `param:"u32" query:"u32" form:"u32" header:"X-U32" cookie:"u32" json:"u32" xml:"u32" cbor:"u32"`
	U64 uint64    `param:"u64" query:"u64" form:"u64" header:"X-U64" cookie:"u64" json:"u64" xml:"u64" cbor:"u64"`
	F32 float32   `param:"f32" query:"f32" form:"f32" header:"X-F32" cookie:"f32" json:"f32" xml:"f32" cbor:"f32"`
	F64 float64   `param:"f64" query:"f64" form:"f64" header:"X-F64" cookie:"f64" json:"f64" xml:"f64" cbor:"f64"`
	B   bool      `param:"b" query:"b" form:"b" header:"X-B" cookie:"b" path:"b" uri:"b" json:"b" xml:"b" cbor:"b"`
	SS  []string  `param:"ss" query:"ss" form:"ss" header:"X-Ss" json:"ss" xml:"ss" cbor:"ss"`
	IS  []int     `param:"is" query:"is" form:"is" header:"X-Is" json:"is" xml:"is" cbor:"is"`
	FS  []float64 `param:"fs" query:"fs" form:"fs" header:"X-Fs" json:"fs" xml:"fs" cbor:"fs"`
	BS  []bool    `param:"bs" query:"bs" form:"bs" header:"X-Bs" json:"bs" xml:"bs" cbor:"bs"`
}

// N: nested targets (bracket and dot notation address the elements of a slice of structs by number)
type N struct {
	Items []NItem `query:"items" form:"items"`
	Inner NItem   `query:"inner" form:"inner"`
}

type NItem struct {
	Name string `query:"name" form:"name"`
	X    int    `query:"x" form:"x"`
}

type Case struct {
	Source string // query | form | multipart | header | cookie | json | xml | cbor | uri
	Split  bool
	Val    V
	// Interleave (query, form, multipart): the elements of the slice fields are added one by one with AddParam /
	// AddFormData, taking turns between the fields, instead of through the struct helper (which adds a key's values
	// back to back)
	Interleave bool `json:",omitempty"`
	Jar        bool `json:",omitempty"` // cookie source: the client's cookie jar already holds cookies with names of the struct
	ViaBody    bool `json:",omitempty"` // form, multipart: the handler binds with Body() (binder chosen by the content type) instead of Form()
	NoPreParse bool `json:",omitempty"` // form, multipart: server with DisablePreParseMultipartForm
}

// interleaved calls add(key, value) for the elements of the slice fields in round-robin order
func interleaved(v V, add func(k, val string)) {
	for i := 0; ; i++ {
		any := false
		if i < len(v.SS) {
			add("ss", v.SS[i])
			any = true
		}
		if i < len(v.IS) {
			add("is", strconv.Itoa(v.IS[i]))
			any = true
		}
		if i < len(v.FS) {
			add("fs", ff(v.FS[i]))
			any = true
		}
		if i < len(v.BS) {
			add("bs", strconv.FormatBool(v.BS[i]))
			any = true
		}
		if !any {
			return
		}
	}
}

type server struct {
	ln      *fasthttputil.InmemoryListener
	cl      *client.Client
	mu      sync.Mutex
	src     string
	viaBody bool
	got     V
	berr    error
}

var (
	serversMu sync.Mutex
	servers   = map[[2]bool]*server{}
)

// getServer: one server per configuration (noPre: Config.DisablePreParseMultipartForm - the multipart form is parsed
// when the handler asks for it, not while the request is read)
func getServer(split, noPre bool) *server {
	serversMu.Lock()
	defer serversMu.Unlock()
	if s := servers[[2]bool{split, noPre}]; s != nil {
		return s
	}
	s := &server{ln: fasthttputil.NewInmemoryListener()}
	app := fiber.New(fiber.Config{EnableSplittingOnParsers: split, DisablePreParseMultipartForm: noPre})
	h := func(c fiber.Ctx) error {
		s.got = V{}
		switch s.src {
		case "query":
			s.berr = c.Bind().Query(&s.got)
		case "form", "multipart":
			if s.viaBody {
				s.berr = c.Bind().Body(&s.got) // the binder is chosen by the content type
			} else {
				s.berr = c.Bind().Form(&s.got)
			}
		case "header":
			s.berr = c.Bind().Header(&s.got)
		case "cookie":
			s.berr = c.Bind().Cookie(&s.got)
		case "json", "xml", "cbor":
			s.berr = c.Bind().Body(&s.got)
		case "uri":
			s.berr = c.Bind().URI(&s.got)
		}
		return c.SendString("ok")
	}
	app.Post("/", h)
	app.Post("/u/:s/:i/:b", h)
	go func() { _ = app.Listener(s.ln, fiber.ListenConfig{DisableStartupMessage: true}) }()
	s.cl = client.New().SetDial(func(string) (net.Conn, error) { return s.ln.Dial() }).SetTimeout(20 * time.Second)
	servers[[2]bool{split, noPre}] = s
	return s
}

func ff(f float64) string { return strconv.FormatFloat(f, 'f', -1, 64) }

func norm(v V) V {
	if len(v.SS) == 0 {
		v.SS = nil
	}
	if len(v.IS) == 0 {
		v.IS = nil
	}
	if len(v.FS) == 0 {
		v.FS = nil
	}
	if len(v.BS) == 0 {
		v.BS = nil
	}
	return v
}

func needsEscaping(src, s string) bool {
	for _, r := range s {
		if !(r >= 'a' && r <= 'z' || r >= 'A' && r <= 'Z' || r >= '0' && r <= '9') {
			return true
		}
	}
	return false
}

func check(c Case) vk.Verdict {
	s := getServer(c.Split, c.NoPreParse)
	s.mu.Lock()
	defer s.mu.Unlock()
	s.src = c.Source
	s.viaBody = c.ViaBody
	v := c.Val
	r := s.cl.R()
	url := "http://example.com/"
	switch c.Source {
	case "query":
		if c.Interleave {
			scalars := v
			scalars.SS, scalars.IS, scalars.FS, scalars.BS = nil, nil, nil, nil
			r.SetParamsWithStruct(scalars)
			interleaved(v, func(k, val string) { r.AddParam(k, val) })
		} else {
			r.SetParamsWithStruct(v)
		}
	case "form", "multipart":
		if c.Interleave {
			scalars := v
			scalars.SS, scalars.IS, scalars.FS, scalars.BS = nil, nil, nil, nil
			r.SetFormDataWithStruct(scalars)
			interleaved(v, func(k, val string) { r.AddFormData(k, val) })
		} else {
			r.SetFormDataWithStruct(v)
		}
		if c.Source == "multipart" {
			r.AddFileWithReader("f.txt", io.NopCloser(strings.NewReader("x")))
		}
	case "header":
		h := map[string][]string{"X-S": {v.S}, "X-I": {strconv.Itoa(v.I)}, "X-I8": {strconv.Itoa(int(v.I8))}, "X-I16": {strconv.Itoa(int(v.I16))}, "X-I32": {strconv.Itoa(int(v.I32))},
			"X-I64": {strconv.FormatInt(v.I64, 10)}, "X-U": {strconv.FormatUint(uint64(v.U), 10)}, "X-U8": {strconv.Itoa(int(v.U8))}, "X-U16": {strconv.Itoa(int(v.U16))},
			"X-U32": {strconv.FormatUint(uint64(v.U32), 10)}, "X-U64": {strconv.FormatUint(v.U64, 10)}, "X-F32": {ff(float64(v.F32))}, "X-F64": {ff(v.F64)}, "X-B": {strconv.FormatBool(v.B)}}
		for _, x := range v.SS {
			h["X-Ss"] = append(h["X-Ss"], x)
		}
		for _, x := range v.IS {
			h["X-Is"] = append(h["X-Is"], strconv.Itoa(x))
		}
		for _, x := range v.FS {
			h["X-Fs"] = append(h["X-Fs"], ff(x))
		}
		for _, x := range v.BS {
			h["X-Bs"] = append(h["X-Bs"], strconv.FormatBool(x))
		}
		r.AddHeaders(h)
	case "cookie":
		if c.Jar {
			// the client has a cookie jar that holds, from an earlier answer of the host, cookies with two of the names
			// the struct uses: what the caller sets for this request takes precedence over what the jar remembers
			jar := client.AcquireCookieJar()
			jar.SetKeyValue("example.com", "s", "stale-from-the-jar")
			jar.SetKeyValue("example.com", "i", "7777")
			s.cl.SetCookieJar(jar)
			defer func() { s.cl.SetCookieJar(nil); client.ReleaseCookieJar(jar) }()
		}
		r.SetCookiesWithStruct(v)
	case "json":
		r.SetJSON(v)
	case "xml":
		r.SetXML(v)
	case "cbor":
		r.SetCBOR(v)
	case "uri":
		url = "http://example.com/u/:s/:i/:b"
		r.SetPathParamsWithStruct(v)
	}
	resp, err := r.Post(url)
	if err != nil {
		return vk.Failf("%s (split=%v): sending %+v failed: %v", c.Source, c.Split, v, err)
	}
	status := resp.StatusCode()
	resp.Close()
	if status != 200 {
		return vk.Failf("%s (split=%v): sending %+v: status %d", c.Source, c.Split, v, status)
	}
	if s.berr != nil {
		return vk.Failf("%s (split=%v): binding what the client encoded for %+v fails: %v", c.Source, c.Split, v, s.berr)
	}
	want := norm(v)
	if c.Source == "cookie" || c.Source == "uri" {
		want.SS, want.IS, want.FS, want.BS = nil, nil, nil, nil
	}
	if c.Source == "uri" {
		want = V{S: v.S, I: v.I, B: v.B}
	}
	if got := norm(s.got); !reflect.DeepEqual(got, want) {
		return vk.Failf("%s (split=%v): bound value differs from what was sent\n got=%+v\nwant=%+v", c.Source, c.Split, got, want)
	}
	nt := needsEscaping(c.Source, v.S) || len(v.SS) >= 2 || len(v.IS) >= 2
	for _, x := range v.SS {
		nt = nt || needsEscaping(c.Source, x)
	}
	return vk.Verdict{NonTrivial: nt, Classes: []string{"source:" + c.Source, fmt.Sprintf("split:%v", c.Split)}}
}

// ---- generator ------------------------------------------------------------------------------------------

func strGen(src string, split bool) *rapid.Generator[string] {
	var g *rapid.Generator[string]
	switch src {
	case "query", "form", "multipart", "json", "cbor":
		g = rapid.OneOf(rapid.String(), rapid.SampledFrom([]string{"", "a b", "a&b=c", "a+b", "100%", "é/ü?#", "x=y;z", "日本語", "a,b", " lead", "trail ", "\t", "q\"uote", "<tag>", "\\"}))
	case "xml":
		g = rapid.OneOf(rapid.StringMatching(`[ -~\x{A0}-\x{2FF}\x{4E00}-\x{4E20}]{0,20}`), rapid.SampledFrom([]string{"", "a&b", "<tag>", "q\"uote", "a,b", "é"}))
	case "header":
		g = rapid.StringMatching(`([!-~]([ -~]{0,12}[!-~])?)?`)
	case "cookie":
		g = rapid.StringMatching(`[!#-+.-:<-\[\]-~]{0,16}`)
	default: // uri
		g = rapid.StringMatching(`[A-Za-z0-9_~-]{1,12}`)
	}
	if split {
		inner := g
		g = rapid.Custom(func(t *rapid.T) string { return strings.ReplaceAll(inner.Draw(t, "s"), ",", "_") })
	}
	return g
}

var finite = rapid.Float64().Filter(func(f float64) bool { return !math.IsNaN(f) && !math.IsInf(f, 0) })
var finite32 = rapid.Float32().Filter(func(f float32) bool { return !math.IsNaN(float64(f)) && !math.IsInf(float64(f), 0) })

func genCase(t *rapid.T) Case {
	c := Case{Source: rapid.SampledFrom([]string{"query", "form", "multipart", "header", "cookie", "json", "xml", "cbor", "uri"}).Draw(t, "source"), Split: rapid.Bool().Draw(t, "split")}
	if c.Source == "query" || c.Source == "form" || c.Source == "multipart" {
		c.Interleave = rapid.Bool().Draw(t, "interleave")
	}
	c.Jar = c.Source == "cookie" && rapid.Bool().Draw(t, "jar")
	if c.Source == "form" || c.Source == "multipart" {
		c.ViaBody = rapid.Bool().Draw(t, "viabody")
		c.NoPreParse = rapid.Bool().Draw(t, "nopreparse")
	}
	sg := strGen(c.Source, c.Split)
	ext := func(lo, hi int64) int64 {
		return rapid.OneOf(rapid.Int64Range(lo, hi), rapid.SampledFrom([]int64{lo, hi, 0, -1, 1})).Filter(func(x int64) bool { return x >= lo && x <= hi }).Draw(t, "int")
	}
	v := V{S: sg.Draw(t, "S"), I: int(ext(math.MinInt64, math.MaxInt64)), I8: int8(ext(math.MinInt8, math.MaxInt8)), I16: int16(ext(math.MinInt16, math.MaxInt16)),
		I32: int32(ext(math.MinInt32, math.MaxInt32)), I64: ext(math.MinInt64, math.MaxInt64), U: uint(rapid.Uint64().Draw(t, "U")), U8: rapid.Uint8().Draw(t, "U8"),
		U16: rapid.Uint16().Draw(t, "U16"), U32: rapid.Uint32().Draw(t, "U32"), U64: rapid.OneOf(rapid.Uint64(), rapid.Just(uint64(math.MaxUint64))).Draw(t, "U64"),
		F32: finite32.Draw(t, "F32"), F64: finite.Draw(t, "F64"), B: rapid.Bool().Draw(t, "B")}
	if c.Source != "cookie" && c.Source != "uri" {
		v.SS = rapid.SliceOfN(sg, 0, 4).Draw(t, "SS")
		v.IS = rapid.SliceOfN(rapid.Int(), 0, 4).Draw(t, "IS")
		v.FS = rapid.SliceOfN(finite, 0, 3).Draw(t, "FS")
		v.BS = rapid.SliceOfN(rapid.Bool(), 0, 3).Draw(t, "BS")
		if rapid.IntRange(0, 9).Draw(t, "long") == 0 {
			v.SS = rapid.SliceOfN(sg, 20, 40).Draw(t, "SSlong")
		}
	}
	if c.Source == "uri" {
		v = V{S: v.S, I: v.I, B: v.B}
	}
	c.Val = v
	return c
}

var propBind = vk.Register(&vk.Prop[Case]{Property: property, Name: "roundtrip", Gen: genCase, Check: check, Quick: 6000, Thorough: 40000})

func TestRoundTrip(t *testing.T) { propBind.Run(t) }

// ---- totality: arbitrary untrusted input never panics and fails as an error (400 with auto handling) -----

type RawCase struct {
	Query       string
	Body        []byte
	ContentType string
	Cookie      string
	Header      string
	Split       bool
}

func checkRaw(c RawCase) vk.Verdict {
	for _, s := range []string{c.Query, c.ContentType, c.Cookie, c.Header} {
		if strings.ContainsAny(s, "\r\n\x00 ") && s == c.Query {
			return vk.Verdict{Skip: true}
		}
		if strings.ContainsAny(s, "\r\n\x00") {
			return vk.Verdict{Skip: true}
		}
	}
	app := fiber.New(fiber.Config{EnableSplittingOnParsers: c.Split})
	results := map[string]string{}
	app.Post("/auto", func(ctx fiber.Ctx) error {
		var v V
		if err := ctx.Bind().WithAutoHandling().Query(&v); err != nil {
			return err
		}
		if len(ctx.Body()) > 0 {
			var b V
			if err := ctx.Bind().WithAutoHandling().Body(&b); err != nil {
				return err
			}
		}
		return ctx.SendString("bound")
	})
	app.Post("/plain", func(ctx fiber.Ctx) error {
		var q, f, h, ck, b V
		results["query"] = fmt.Sprint(ctx.Bind().Query(&q))
		results["form"] = fmt.Sprint(ctx.Bind().Form(&f))
		results["header"] = fmt.Sprint(ctx.Bind().Header(&h))
		results["cookie"] = fmt.Sprint(ctx.Bind().Cookie(&ck))
		results["body"] = fmt.Sprint(ctx.Bind().Body(&b))
		m := map[string][]string{}
		results["querymap"] = fmt.Sprint(ctx.Bind().Query(&m))
		var nq, nf N
		results["nested-query"] = fmt.Sprint(ctx.Bind().Query(&nq))
		results["nested-form"] = fmt.Sprint(ctx.Bind().Form(&nf))
		return ctx.SendString("done")
	})
	hdr := [][2]string{}
	if c.ContentType != "" {
		hdr = append(hdr, [2]string{"Content-Type", c.ContentType})
	}
	if c.Cookie != "" {
		hdr = append(hdr, [2]string{"Cookie", c.Cookie})
	}
	if c.Header != "" {
		hdr = append(hdr, [2]string{"X-I", c.Header}, [2]string{"X-Is", c.Header}, [2]string{"X-F64", c.Header})
	}
	ctx := fmt.Sprintf("query %q body %q content-type %q cookie %q header %q split=%v", c.Query, c.Body, c.ContentType, c.Cookie, c.Header, c.Split)
	out, err := vk.Wire(app, vk.Req("POST", "/plain?"+c.Query, hdr, c.Body))
	if err != nil {
		return vk.Failf("%s: %v", ctx, err)
	}
	ran := strings.HasPrefix(string(out), "HTTP/1.1 200")
	// an element of a slice of structs addressed by a negative number cannot be bound: that is a failure, reported as one
	if ran && (strings.Contains(c.Query, "items[-") || strings.Contains(c.Query, "items.-")) && results["nested-query"] == "<nil>" {
		return vk.Failf("%s: the query addresses a slice element by a negative number, binding it into the nested struct reported no error", ctx)
	}
	// whether a query binds does not depend on the order in which its (differently named) components arrive: one
	// malformed or unconvertible component makes the binding fail wherever it stands
	if pairs := strings.Split(c.Query, "&"); ran && len(pairs) > 1 {
		keys := map[string]bool{}
		distinct := true
		for _, p := range pairs {
			// names are compared as the server sees them: percent-decoded ("%69" is the key "i"), '+' a blank
			if d, err := url.QueryUnescape(p); err == nil {
				p = d
			}
			k := p
			if i := strings.IndexAny(p, "=[."); i >= 0 {
				k = p[:i] // (components of one nested name count as one key)
			}
			k = strings.ToLower(k)
			if keys[k] {
				distinct = false
			}
			keys[k] = true
		}
		if distinct {
			firstQ, firstM := results["query"] != "<nil>", results["querymap"] != "<nil>"
			rev := make([]string, len(pairs))
			for i, p := range pairs {
				rev[len(pairs)-1-i] = p
			}
			if _, err := vk.Wire(app, vk.Req("POST", "/plain?"+strings.Join(rev, "&"), hdr, c.Body)); err == nil {
				if revQ, revM := results["query"] != "<nil>", results["querymap"] != "<nil>"; revQ != firstQ || revM != firstM {
					return vk.Failf("%s: binding the query fails=%v (into a map: %v), with the components in reverse order %q fails=%v (map: %v)", ctx, firstQ, firstM, strings.Join(rev, "&"), revQ, revM)
				}
			}
			// restore the outcome of the original order for what follows
			if _, err := vk.Wire(app, vk.Req("POST", "/plain?"+c.Query, hdr, c.Body)); err != nil {
				return vk.Failf("%s: %v", ctx, err)
			}
		}
	}
	out2, err := vk.Wire(app, vk.Req("POST", "/auto?"+c.Query, hdr, c.Body))
	if err != nil {
		return vk.Failf("%s (auto handling): %v", ctx, err)
	}
	st := ""
	if len(out2) >= 12 {
		st = string(out2[9:12])
	}
	if ran && st != "200" && st != "400" && st != "413" && st != "431" && st != "422" && st != "415" {
		return vk.Failf("%s: with automatic error handling the binding failure is answered %s, want 400", ctx, st)
	}
	// automatic handling is a per-call choice: the same manual-mode binds on the same app after the auto-handled ones
	// report the same errors and leave the status to the handler
	// (which of several conversion errors the message names first depends on map order: compare failed / did not fail)
	outcome := func() string {
		var parts []string
		for _, k := range []string{"query", "form", "header", "cookie", "body", "querymap", "nested-query", "nested-form"} {
			parts = append(parts, fmt.Sprintf("%s failed=%v", k, results[k] != "<nil>"))
		}
		return strings.Join(parts, ", ")
	}
	first := outcome()
	for k := range results {
		delete(results, k)
	}
	out3, err := vk.Wire(app, vk.Req("POST", "/plain?"+c.Query, hdr, c.Body))
	if err != nil {
		return vk.Failf("%s (manual handling again): %v", ctx, err)
	}
	if ran && (!strings.HasPrefix(string(out3), "HTTP/1.1 200") || outcome() != first) {
		return vk.Failf("%s: manual-mode binds answered 200 with %s; the same request after an auto-handled one on the same app is answered %.12q with %s", ctx, first, out3, outcome())
	}
	return vk.Verdict{NonTrivial: ran && (results["query"] != "<nil>" || results["body"] != "<nil>"), Classes: []string{"status:" + st}}
}

func genRaw(t *rapid.T) RawCase {
	frag := rapid.SampledFrom([]string{"i=1", "i=x", "i=99999999999999999999", "is=1,2,x", "ss[]=a", "ss[0]=a", "a[b][c]=1", "a[b=2", "[", "]", "&", "=", "%zz", "%", "f64=1e999", "u8=256", "u8=-1", "b=maybe", "i8=128", "s=" + strings.Repeat("x", 50), "is=1&is=2", "..", "a.b.c=1", "fs=NaN", "fs=Inf",
		"items[0][name]=a", "items[1][x]=7", "items[-1][name]=x", "items.-1.name=x", "items[-9223372036854775808][x]=1", "items[16001][name]=x", "items[99999999999999999999][name]=x", "items[][name]=x", "items[0]=x", "inner[x]=1", "inner.x=z", "inner[name][0]=q"})
	c := RawCase{Split: rapid.Bool().Draw(t, "split")}
	n := rapid.IntRange(0, 6).Draw(t, "nq")
	var q []string
	for i := 0; i < n; i++ {
		q = append(q, rapid.OneOf(frag, rapid.StringMatching(`[a-z0-9\[\]=%.,]{0,8}`)).Draw(t, "qf"))
	}
	c.Query = strings.Join(q, "&")
	c.ContentType = rapid.SampledFrom([]string{"", "application/json", "application/xml", "application/x-www-form-urlencoded", "multipart/form-data; boundary=b", "multipart/form-data", "application/cbor", "text/plain", "application/json; charset=utf-8", "APPLICATION/JSON", "application/vnd.x+json"}).Draw(t, "ct")
	c.Body = []byte(rapid.OneOf(rapid.SampledFrom([]string{"", `{"i":1}`, `{"i":"x"}`, `{"is":[1,"a"]}`, `{"i":1e400}`, `{`, `[]`, `null`, `<V><i>1</i></V>`, `<V><i>x</i>`, "i=1&is=2&is=x", "items[-1][name]=x&i=1", "items.0.x=1&items[2][x]=z", "--b\r\nContent-Disposition: form-data; name=\"i\"\r\n\r\nx\r\n--b--\r\n", "\xa1\x61i\x01", "\xa1\x61i\x61x", "\xff\xff", strings.Repeat("[", 500)}), rapid.StringN(0, 20, 60)).Draw(t, "body"))
	c.Cookie = rapid.SampledFrom([]string{"", "i=1", "i=x; u8=300", "b=2", "f64=.", "i"}).Draw(t, "cookie")
	c.Header = rapid.SampledFrom([]string{"", "1", "x", "1,2", "1, x", "99999999999999999999", "1e5"}).Draw(t, "header")
	return c
}

var propRaw = vk.Register(&vk.Prop[RawCase]{Property: property, Name: "totality", Gen: genRaw, Check: checkRaw, Quick: 8000, Thorough: 60000})

func TestTotality(t *testing.T) { propRaw.Run(t) }
func FuzzTotality(f *testing.F) { propRaw.Fuzz(f) }
