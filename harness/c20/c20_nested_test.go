package c20

import (
	"encoding/base64"
	"fmt"
	"testing"

	"github.com/gofiber/fiber/v3"
	"github.com/gofiber/fiber/v3/middleware/encryptcookie"
	"github.com/valyala/fasthttp"
	"pgregory.net/rapid"

	"verifharness/vk"
)

// ---- two instances in one handler chain ---------------------------------------------------------------------------
//
// An application-wide instance (key K1) leaves the cookie "inner" alone (Except); a second instance on a group (key K2)
// protects exactly that cookie and leaves "outer" alone. Every request of the group passes both. Each cookie must reach
// the client as ciphertext under the key of its instance and come back to the handler with its value; a value the
// instance in charge did not issue reaches the handler as empty.

type NestedCase struct {
	K1, K2       []byte
	Outer, Inner string
	Restart      bool // the group's handlers are reached through a handler that restarts routing
}

func cookieOf(r *fasthttp.RequestCtx, name string) (string, bool) {
	fc := fasthttp.AcquireCookie()
	defer fasthttp.ReleaseCookie(fc)
	fc.SetKey(name)
	if !r.Response.Header.Cookie(fc) {
		return "", false
	}
	return string(fc.Value()), true
}

func checkNested(c NestedCase) vk.Verdict {
	k1, k2 := base64.StdEncoding.EncodeToString(c.K1), base64.StdEncoding.EncodeToString(c.K2)
	if k1 == k2 {
		return vk.Verdict{Skip: true}
	}
	app := fiber.New()
	app.Use(encryptcookie.New(encryptcookie.Config{Key: k1, Except: []string{"inner"}}))
	var seenOuter, seenInner string
	g := app.Group("/in", encryptcookie.New(encryptcookie.Config{Key: k2, Except: []string{"outer"}}))
	g.Get("/set", func(ctx fiber.Ctx) error {
		ctx.Cookie(&fiber.Cookie{Name: "outer", Value: c.Outer})
		ctx.Cookie(&fiber.Cookie{Name: "inner", Value: c.Inner})
		return nil
	})
	g.Get("/get", func(ctx fiber.Ctx) error {
		seenOuter, seenInner = ctx.Cookies("outer"), ctx.Cookies("inner")
		return nil
	})
	setPath, getPath := "/in/set", "/in/get"
	if c.Restart {
		app.Get("/r/:what", func(ctx fiber.Ctx) error {
			ctx.Path("/in/" + ctx.Params("what"))
			return ctx.RestartRouting()
		})
		setPath, getPath = "/r/set", "/r/get"
	}
	ctx := fmt.Sprintf("app-wide instance (key 1, except inner) and group instance (key 2, except outer), restart=%v, outer=%q inner=%q", c.Restart, c.Outer, c.Inner)
	r := vk.Do(app, "GET", setPath)
	wo, ok1 := cookieOf(r, "outer")
	wi, ok2 := cookieOf(r, "inner")
	if !ok1 || !ok2 {
		return vk.Failf("%s: Set-Cookie for outer/inner present: %v/%v", ctx, ok1, ok2)
	}
	for _, x := range []struct{ name, wire, plain, key string }{{"outer", wo, c.Outer, k1}, {"inner", wi, c.Inner, k2}} {
		if x.wire == x.plain {
			return vk.Failf("%s: cookie %q reaches the client in plaintext (%q)", ctx, x.name, x.wire)
		}
		if dec, err := encryptcookie.DecryptCookie(x.wire, x.key); err != nil || dec != x.plain {
			return vk.Failf("%s: cookie %q on the wire (%q) is not the value encrypted under the key of the instance in charge of it (decrypts to %q, %v)", ctx, x.name, x.wire, dec, err)
		}
	}
	vk.Do(app, "GET", getPath, "Cookie", "outer="+wo+"; inner="+wi)
	if seenOuter != c.Outer || seenInner != c.Inner {
		return vk.Failf("%s: sent back, the handler sees outer=%q inner=%q", ctx, seenOuter, seenInner)
	}
	// values the instance in charge did not issue: plain text, and the other instance's ciphertext
	vk.Do(app, "GET", getPath, "Cookie", "outer="+wi+"; inner=forged-plain-text")
	if seenOuter != "" || seenInner != "" {
		return vk.Failf("%s: outer sent with the ciphertext of the other instance and inner as plain text reach the handler as outer=%q inner=%q, want both empty", ctx, seenOuter, seenInner)
	}
	return vk.Verdict{NonTrivial: true, Classes: []string{fmt.Sprintf("restart=%v", c.Restart)}}
}

var propNested = vk.Register(&vk.Prop[NestedCase]{Property: property, Name: "nested", Check: checkNested, Quick: 300, Thorough: 3000,
	Gen: func(t *rapid.T) NestedCase {
		kl := rapid.SampledFrom([]int{16, 24, 32}).Draw(t, "kl")
		val := rapid.StringMatching(`[!#-+\--:<-~]{1,24}`)
		return NestedCase{K1: rapid.SliceOfN(rapid.Byte(), kl, kl).Draw(t, "k1"), K2: rapid.SliceOfN(rapid.Byte(), kl, kl).Draw(t, "k2"),
			Outer: val.Draw(t, "outer"), Inner: val.Draw(t, "inner"), Restart: rapid.IntRange(0, 2).Draw(t, "restart") == 0}
	}})

func TestNested(t *testing.T) { propNested.Run(t) }
