package c20

import (
	"bytes"
	"encoding/base64"
	"fmt"
	"sort"
	"strings"
	"testing"
	"time"

	"github.com/gofiber/fiber/v3"
	"github.com/gofiber/fiber/v3/middleware/encryptcookie"
	recoverer "github.com/gofiber/fiber/v3/middleware/recover"
	"github.com/valyala/fasthttp"
	"pgregory.net/rapid"

	"verifharness/vk"
)

const property = "C20"

func TestMain(m *testing.M) { vk.Main(m, property) }

func TestAAACorpus(t *testing.T)    { vk.TestCorpus(t, property) }
func TestAAAWitnesses(t *testing.T) { vk.TestWitnesses(t, property) }
func TestReplay(t *testing.T)       { vk.TestReplay(t) }

type Cookie struct {
	Name  string
	Value []byte
	Attr  string `json:",omitempty"` // "" | past (Expires in the past: "drop it", value still set) | future | maxage | session | secure
}

func (ck Cookie) fiber() *fiber.Cookie {
	c := &fiber.Cookie{Name: ck.Name, Value: string(ck.Value)}
	switch ck.Attr {
	case "past":
		c.Expires = time.Date(2001, 2, 3, 4, 5, 6, 0, time.UTC)
	case "future":
		c.Expires = time.Date(2099, 2, 3, 4, 5, 6, 0, time.UTC)
	case "maxage":
		c.MaxAge = 3600
	case "session":
		c.SessionOnly = true
	case "secure":
		c.Secure, c.HTTPOnly, c.SameSite, c.Path, c.Domain = true, true, "Strict", "/app", "example.com"
	}
	return c
}

type Case struct {
	Key      []byte
	OtherKey []byte
	Cookies  []Cookie
	Except   []string
	SetErr   int  `json:",omitempty"` // the handler that sets the cookies then fails with this status (the error reply carries the cookies too)
	SetPanic bool `json:",omitempty"` // the handler that sets the cookies then panics; a recover middleware in front of encryptcookie turns that into a 500 reply (which carries the cookies too)
	Dup      bool `json:",omitempty"` // the handler sets the first cookie's name a second time, for another path, as a Set-Cookie header line
	Restart  bool `json:",omitempty"` // the requests go to routes whose handlers override the path and restart routing (the stack, with the middleware, runs again inside the first pass)
	Mutate   bool // run the complete single-character substitution / truncation / extension set on every ciphertext
}

const dupValue = "second-value-for-another-path"

// textualValue: the value of the first Set-Cookie line of that name, read the way a lenient client does - the text
// between the first '=' and the first ';'.
func textualValue(resp *fasthttp.Response, name string) (string, bool) {
	val, found := "", false
	resp.Header.VisitAllCookie(func(k, line []byte) {
		if found || string(k) != name {
			return
		}
		if i := bytes.IndexByte(line, '='); i >= 0 {
			val, found = string(line[i+1:]), true
			if j := strings.IndexByte(val, ';'); j >= 0 {
				val = val[:j]
			}
		}
	})
	return val, found
}

func lossy(v []byte) bool {
	s := string(v)
	return strings.ContainsAny(s, ";\r\n") || strings.HasPrefix(s, " ") || strings.HasSuffix(s, " ") ||
		(len(s) >= 2 && s[0] == '"' && s[len(s)-1] == '"')
}

// plainToken: text that stands for itself in a Set-Cookie line
func plainToken(s string) bool {
	for i := 0; i < len(s); i++ {
		if ch := s[i]; !(ch >= 'a' && ch <= 'z' || ch >= 'A' && ch <= 'Z' || ch >= '0' && ch <= '9' || ch == '-' || ch == '_' || ch == '.') {
			return false
		}
	}
	return s != ""
}

func excepted(name string, ex []string) bool {
	for _, e := range ex {
		if e == name {
			return true
		}
	}
	return false
}

const b64 = "ABab09+/=Zz5"

func check(c Case) vk.Verdict {
	key := base64.StdEncoding.EncodeToString(c.Key)
	app := fiber.New()
	seen := map[string]string{}
	seenAll := map[string][]string{}
	if c.SetPanic {
		app.Use(recoverer.New())
	}
	app.Use(encryptcookie.New(encryptcookie.Config{Key: key, Except: c.Except}))
	app.Get("/set", func(ctx fiber.Ctx) error {
		for _, ck := range c.Cookies {
			if ck.Attr == "badattr" && plainToken(ck.Name) && plainToken(string(ck.Value)) {
				// through the header API (a relayed upstream line), with an attribute the cookie parser refuses: the
				// client still takes name and value from it
				ctx.Response().Header.Add("Set-Cookie", ck.Name+"="+string(ck.Value)+"; max-age=soon")
				continue
			}
			ctx.Cookie(ck.fiber())
		}
		if c.Dup {
			// the same name once more for another path, as a header line (Cookie() keeps one cookie per name)
			ctx.Response().Header.Add("Set-Cookie", c.Cookies[0].Name+"="+dupValue+"; Path=/other")
			// ... and a name-value pair without '=' (a nameless cookie) in a line the cookie parser refuses
			ctx.Response().Header.Add("Set-Cookie", "nameless-secret-text; max-age=soon")
		}
		if c.SetPanic {
			panic("handler failed after setting its cookies")
		}
		if c.SetErr != 0 {
			return fiber.NewError(c.SetErr, "denied")
		}
		return nil
	})
	app.Get("/get", func(ctx fiber.Ctx) error {
		for k := range seen {
			delete(seen, k)
		}
		for _, ck := range c.Cookies {
			seen[ck.Name] = strings.Clone(ctx.Cookies(ck.Name))
		}
		// everything else that reads request cookies: the complete list and the binder
		for k := range seenAll {
			delete(seenAll, k)
		}
		ctx.Request().Header.VisitAllCookie(func(k, v []byte) { seenAll[string(k)] = append(seenAll[string(k)], string(v)) })
		bound := map[string][]string{}
		if err := ctx.Bind().Cookie(&bound); err == nil {
			for k, vs := range bound {
				for _, v := range vs {
					seenAll[k] = append(seenAll[k], strings.Clone(v))
				}
			}
		}
		return nil
	})
	setPath, getPath := "/set", "/get"
	if c.Restart {
		setPath, getPath = "/set-r", "/get-r"
		app.Get("/set-r", func(ctx fiber.Ctx) error {
			ctx.Path("/set")
			return ctx.RestartRouting()
		})
		app.Get("/get-r", func(ctx fiber.Ctx) error {
			ctx.Path("/get")
			return ctx.RestartRouting()
		})
	}
	issue := func() (map[string]string, string) {
		r := vk.Do(app, "GET", setPath)
		want := max(c.SetErr, 200)
		if c.SetPanic {
			want = 500
		}
		if r.Response.StatusCode() != want {
			return nil, fmt.Sprintf("/set answered %d, want %d", r.Response.StatusCode(), want)
		}
		out := map[string]string{}
		for _, ck := range c.Cookies {
			fc := fasthttp.AcquireCookie()
			fc.SetKey(ck.Name)
			if r.Response.Header.Cookie(fc) {
				out[ck.Name] = string(fc.Value())
			} else if w, ok := textualValue(&r.Response, ck.Name); ok {
				// a line fasthttp's cookie parser refuses (an attribute it cannot read): a client still takes the text
				// between the first '=' and the first ';' as the value
				out[ck.Name] = w
			} else {
				return nil, fmt.Sprintf("no Set-Cookie for %q", ck.Name)
			}
			fasthttp.ReleaseCookie(fc)
		}
		return out, ""
	}
	get := func(pairs map[string]string) {
		var parts []string
		for _, ck := range c.Cookies {
			if v, ok := pairs[ck.Name]; ok {
				parts = append(parts, ck.Name+"="+v)
			}
		}
		vk.Do(app, "GET", getPath, "Cookie", strings.Join(parts, "; "))
	}
	wire, msg := issue()
	if msg != "" {
		return vk.Failf("%s", msg)
	}
	if c.Dup {
		// every Set-Cookie line of the name: ciphertext of one of the two values, each once (excepted: the values as they are)
		name := c.Cookies[0].Name
		r := vk.Do(app, "GET", "/set")
		var plain []string
		var fail string
		r.Response.Header.VisitAllCookie(func(_, line []byte) {
			if bytes.Contains(line, []byte("nameless-secret-text")) {
				fail = fmt.Sprintf("Set-Cookie line %q: the value of the nameless cookie reaches the client in plaintext", line)
			}
		})
		r.Response.Header.VisitAllCookie(func(k, line []byte) {
			if string(k) != name {
				return
			}
			var fc fasthttp.Cookie
			w := ""
			if err := fc.ParseBytes(line); err == nil {
				w = string(fc.Value())
			} else if i := bytes.IndexByte(line, '='); i >= 0 {
				w = string(line[i+1:])
				if j := strings.IndexByte(w, ';'); j >= 0 {
					w = w[:j]
				}
			}
			if excepted(name, c.Except) {
				plain = append(plain, w)
				return
			}
			dec, err := encryptcookie.DecryptCookie(w, key)
			if err != nil {
				fail = fmt.Sprintf("Set-Cookie line %q of cookie %q (set twice, for two paths) does not carry a value encrypted under the key: %v", line, name, err)
				return
			}
			plain = append(plain, dec)
		})
		if fail != "" {
			return vk.Failf("%s", fail)
		}
		sort.Strings(plain)
		want := []string{string(c.Cookies[0].Value), dupValue}
		sort.Strings(want)
		if !lossy(c.Cookies[0].Value) && strings.Join(plain, "\x00") != strings.Join(want, "\x00") {
			return vk.Failf("cookie %q was set twice (values %q): the Set-Cookie lines carry %q", name, want, plain)
		}
	}
	wire2, _ := issue()
	v := vk.Verdict{}
	// 1. ciphertext outside
	for _, ck := range c.Cookies {
		w := wire[ck.Name]
		if excepted(ck.Name, c.Except) {
			if w != string(ck.Value) {
				return vk.Failf("excepted cookie %q changed on the way out: %q -> %q", ck.Name, ck.Value, w)
			}
			continue
		}
		if w == string(ck.Value) && len(ck.Value) > 0 {
			return vk.Failf("cookie %q reaches the client as plaintext %q (except=%q)", ck.Name, w, c.Except)
		}
		if len(ck.Value) >= 4 {
			if strings.Contains(w, string(ck.Value)) {
				return vk.Failf("cookie %q: Set-Cookie value %q contains the plaintext", ck.Name, w)
			}
			if dec, err := base64.StdEncoding.DecodeString(w); err == nil && bytes.Contains(dec, ck.Value) {
				return vk.Failf("cookie %q: base64-decoded Set-Cookie value contains the plaintext %q", ck.Name, ck.Value)
			}
		}
		if w == wire2[ck.Name] {
			return vk.Failf("cookie %q: two encryptions of the same value are identical (%q)", ck.Name, w)
		}
	}
	// 2. round trip
	get(wire)
	for _, ck := range c.Cookies {
		if seen[ck.Name] != string(ck.Value) {
			return vk.Failf("round trip: cookie %q set to %q comes back as %q (wire %q)", ck.Name, ck.Value, seen[ck.Name], wire[ck.Name])
		}
	}
	// 2b. the cookies this instance issued (and has by now accepted itself) mean nothing to an instance with another key
	if !bytes.Equal(c.Key, c.OtherKey) {
		appB := fiber.New()
		seenB := map[string]string{}
		appB.Use(encryptcookie.New(encryptcookie.Config{Key: base64.StdEncoding.EncodeToString(c.OtherKey), Except: c.Except}))
		appB.Get("/get", func(ctx fiber.Ctx) error {
			for _, ck := range c.Cookies {
				seenB[ck.Name] = strings.Clone(ctx.Cookies(ck.Name))
			}
			return nil
		})
		var parts []string
		for _, ck := range c.Cookies {
			if !strings.ContainsAny(ck.Name, "=; ") {
				parts = append(parts, ck.Name+"="+wire[ck.Name])
			}
		}
		vk.Do(appB, "GET", "/get", "Cookie", strings.Join(parts, "; "))
		for _, ck := range c.Cookies {
			if excepted(ck.Name, c.Except) || strings.ContainsAny(ck.Name, "=; ") || len(ck.Value) == 0 {
				continue
			}
			if seenB[ck.Name] != "" {
				return vk.Failf("cookie %q issued (and accepted) under one key reaches the handler of an instance configured with another key as %q, want empty", ck.Name, seenB[ck.Name])
			}
		}
	}
	// 3. values not issued by the server under the current key
	tagRejected, sameAccepted, b64Rejected := 0, 0, 0
	try := func(name, orig, forged, what string) string {
		p := map[string]string{}
		for k, w := range wire {
			p[k] = w
		}
		p[name] = forged
		get(p)
		got := seen[name]
		if got != "" && got != orig {
			return fmt.Sprintf("cookie %q (%s): forged value %q reaches the handler as %q (original %q)", name, what, forged, got, orig)
		}
		if dec, err := base64.StdEncoding.DecodeString(forged); err != nil || len(dec) < 12 {
			b64Rejected++
		} else if got == "" {
			tagRejected++
		} else {
			sameAccepted++
		}
		// the other cookies of the same request are unaffected
		for _, o := range c.Cookies {
			if o.Name != name && seen[o.Name] != string(o.Value) {
				return fmt.Sprintf("forging cookie %q changed cookie %q: %q", name, o.Name, seen[o.Name])
			}
		}
		return ""
	}
	for _, ck := range c.Cookies {
		if excepted(ck.Name, c.Except) {
			continue
		}
		w, orig := wire[ck.Name], string(ck.Value)
		if orig == "" {
			continue // "" is indistinguishable from rejection
		}
		other, err := encryptcookie.EncryptCookie(orig, base64.StdEncoding.EncodeToString(c.OtherKey))
		if err == nil && !bytes.Equal(c.Key, c.OtherKey) {
			if m := try(ck.Name, orig, other, "encrypted under another key"); m != "" {
				return vk.Failf("%s", m)
			}
		}
		if m := try(ck.Name, orig, base64.StdEncoding.EncodeToString(ck.Value), "plain base64 of the value"); m != "" {
			return vk.Failf("%s", m)
		}
		if !c.Mutate {
			continue
		}
		for i := 0; i < len(w); i++ {
			for _, a := range []byte{b64[i%len(b64)], b64[(i+5)%len(b64)]} {
				if w[i] == a {
					continue
				}
				if m := try(ck.Name, orig, w[:i]+string(a)+w[i+1:], fmt.Sprintf("substitution at %d", i)); m != "" {
					return vk.Failf("%s", m)
				}
			}
			if m := try(ck.Name, orig, w[:i], fmt.Sprintf("truncation to %d", i)); m != "" {
				return vk.Failf("%s", m)
			}
		}
		for _, ext := range []string{"A", "AAAA", "=", "QUFB"} {
			if m := try(ck.Name, orig, w+ext, "extension "+ext); m != "" {
				return vk.Failf("%s", m)
			}
		}
	}
	// 5. an excepted cookie passes through unchanged whatever it holds - also a ciphertext this server issued for
	// another cookie (it must not be decrypted for the application to echo)
	for _, ex := range c.Cookies {
		if !excepted(ex.Name, c.Except) || strings.ContainsAny(ex.Name, "=; ") {
			continue
		}
		for _, pr := range c.Cookies {
			if excepted(pr.Name, c.Except) || len(pr.Value) == 0 {
				continue
			}
			vk.Do(app, "GET", "/get", "Cookie", ex.Name+"="+wire[pr.Name])
			if seen[ex.Name] != wire[pr.Name] {
				return vk.Failf("excepted cookie %q sent with the ciphertext issued for %q reaches the handler as %q, want it unchanged (%q)", ex.Name, pr.Name, seen[ex.Name], wire[pr.Name])
			}
		}
	}
	// 4. a name sent twice: the issued ciphertext next to text the server never issued, in both orders
	for _, ck := range c.Cookies {
		if excepted(ck.Name, c.Except) || len(ck.Value) == 0 || strings.ContainsAny(ck.Name, "=; ") {
			continue
		}
		// the other cookies of the client travel in the same header, in front of or behind the repeated name: whatever
		// happens to the repeated name, they arrive as always (excepted ones as they are, protected ones decrypted)
		var others []string
		for _, o := range c.Cookies {
			if o.Name != ck.Name && !strings.ContainsAny(o.Name, "=; ") && !lossy(o.Value) && len(o.Value) > 0 {
				others = append(others, o.Name+"="+wire[o.Name])
			}
		}
		rest := strings.Join(others, "; ")
		for k, hdr := range []string{ck.Name + "=" + wire[ck.Name] + "; " + ck.Name + "=evil-raw-text", ck.Name + "=evil-raw-text; " + ck.Name + "=" + wire[ck.Name], ck.Name + "=x; " + ck.Name + "=admin"} {
			if rest != "" && k%2 == 0 {
				hdr = rest + "; " + hdr
			} else if rest != "" {
				hdr = hdr + "; " + rest
			}
			vk.Do(app, "GET", "/get", "Cookie", hdr)
			for _, v := range append([]string{seen[ck.Name]}, seenAll[ck.Name]...) {
				if v != "" && v != string(ck.Value) {
					return vk.Failf("request cookie header %q: the handler can read %q for cookie %q (through Cookies(), the list of all cookies or the binder); want only \"\" or the issued value %q", hdr, v, ck.Name, ck.Value)
				}
			}
			for _, o := range c.Cookies {
				if o.Name != ck.Name && !strings.ContainsAny(o.Name, "=; ") && !lossy(o.Value) && len(o.Value) > 0 && seen[o.Name] != string(o.Value) {
					return vk.Failf("request cookie header %q (cookie %q sent twice): cookie %q reaches the handler as %q, want %q (excepted=%v)", hdr, ck.Name, o.Name, seen[o.Name], o.Value, excepted(o.Name, c.Except))
				}
			}
		}
	}
	for _, ck := range c.Cookies {
		if len(ck.Value) >= 4 && !excepted(ck.Name, c.Except) && (tagRejected > 0 || sameAccepted > 0) {
			v.NonTrivial = true
		}
	}
	vk.Rec.Class("roundtrip", fmt.Sprintf("keylen:%d", len(c.Key)))
	if tagRejected > 0 {
		v.Classes = append(v.Classes, "tag-rejected")
	}
	if sameAccepted > 0 {
		v.Classes = append(v.Classes, "same-bytes-accepted")
	}
	if len(c.Except) > 0 {
		v.Classes = append(v.Classes, "has-except")
	}
	if len(c.Cookies) > 1 {
		v.Classes = append(v.Classes, "several-cookies")
	}
	if c.SetErr != 0 {
		v.Classes = append(v.Classes, "set-handler-fails")
	}
	if c.SetPanic {
		v.Classes = append(v.Classes, "set-handler-panics-behind-recover")
	}
	mutations.add(tagRejected + sameAccepted + b64Rejected)
	return v
}

type counter struct{ n int }

func (c *counter) add(k int) {
	c.n += k
	vk.Rec.Extra("forged_values_tried", c.n)
}

var mutations counter

// ---- generator ------------------------------------------------------------------------------------------

var names = []string{"sec", "secret", "s", "plain", "plain2", "pl", "token", "a", "ab", "SEC"}

func genValue(t *rapid.T) []byte {
	switch rapid.IntRange(0, 29).Draw(t, "vk") {
	case 0, 1:
		return []byte{}
	case 2, 3, 4, 5:
		return rapid.SliceOfN(rapid.Byte(), 1, 64).Draw(t, "bin")
	case 6, 7:
		return []byte(strings.Repeat(rapid.StringMatching(`[a-z]{1,8}`).Draw(t, "rep"), rapid.SampledFrom([]int{8, 20, 64, 256, 400, 700, 1000}).Draw(t, "times")))
	case 8:
		return []byte(rapid.SampledFrom([]string{"a;b", " x ", `"q"`, "a; Path=/evil", "x ", " y", "secret-text; max-age=soon", "secret-text; expires=never"}).Draw(t, "lossy"))
	case 9, 10:
		// a value that is also the name of a cookie (names and plaintexts of one request must never be confused)
		return []byte(rapid.SampledFrom(names).Draw(t, "nameasvalue"))
	default:
		return []byte(rapid.StringMatching(`[!#-+\--:<-~]{1,40}`).Draw(t, "val"))
	}
}

func genCase(t *rapid.T) Case {
	kl := rapid.SampledFrom([]int{16, 24, 32}).Draw(t, "kl")
	c := Case{Key: rapid.SliceOfN(rapid.Byte(), kl, kl).Draw(t, "key"), OtherKey: rapid.SliceOfN(rapid.Byte(), kl, kl).Draw(t, "okey")}
	ns := rapid.SliceOfNDistinct(rapid.SampledFrom(names), 1, 4, rapid.ID[string]).Draw(t, "names")
	for _, n := range ns {
		c.Cookies = append(c.Cookies, Cookie{Name: n, Value: genValue(t), Attr: rapid.SampledFrom([]string{"", "", "", "past", "future", "maxage", "session", "secure", "badattr", "badattr"}).Draw(t, "attr")})
	}
	c.Except = rapid.SliceOfNDistinct(rapid.SampledFrom(names), 0, 2, rapid.ID[string]).Draw(t, "except")
	c.SetErr = rapid.SampledFrom([]int{0, 0, 0, 403, 500}).Draw(t, "seterr")
	c.SetPanic = rapid.IntRange(0, 5).Draw(t, "setpanic") == 0
	c.Dup = rapid.IntRange(0, 3).Draw(t, "dup") == 0
	c.Restart = rapid.IntRange(0, 3).Draw(t, "restart") == 0
	c.Mutate = true
	for _, ck := range c.Cookies {
		if len(ck.Value) > 300 {
			c.Mutate = rapid.IntRange(0, 7).Draw(t, "mutlong") == 0
		}
	}
	return c
}

// classify recognises open finding C20-a: the plaintext is altered before the middleware sees it because the
// Set-Cookie serialisation the middleware re-parses is lossy for ';', edge spaces and surrounding quotes.
func classify(c Case, fail string) string {
	if !strings.HasPrefix(fail, "round trip:") && !strings.Contains(fail, "changed on the way out") {
		return ""
	}
	for _, ck := range c.Cookies {
		if lossy(ck.Value) && strings.Contains(fail, fmt.Sprintf("cookie %q", ck.Name)) {
			return "C20-a"
		}
	}
	return ""
}

var propCookie = vk.Register(&vk.Prop[Case]{Property: property, Name: "roundtrip", Gen: genCase, Check: check, Classify: classify, Quick: 3000, Thorough: 8000})

func TestRoundTrip(t *testing.T) { propCookie.Run(t) }
func FuzzRoundTrip(f *testing.F) { propCookie.Fuzz(f) }

// ---- several requests inside one middleware instance at the same time -----------------------------------------------

// ConcCase: 2-3 clients are served by one middleware instance at the same time. Each first has its own cookies set, and
// then sends them back; the interleaving is chosen by the case (yield points: the handlers and the configured
// Encryptor/Decryptor, which wrap the package's own EncryptCookie/DecryptCookie).
type ConcCase struct {
	Key     []byte
	Clients [][]Cookie // names are distinct across clients
	Picks   []int
}

func checkConc(c ConcCase) vk.Verdict {
	key := base64.StdEncoding.EncodeToString(c.Key)
	s := vk.NewSched()
	app := fiber.New()
	app.Use(encryptcookie.New(encryptcookie.Config{Key: key,
		Encryptor: func(v, k string) (string, error) {
			s.Yield("encrypt<")
			out, err := encryptcookie.EncryptCookie(v, k)
			s.Yield("encrypt>")
			return out, err
		},
		Decryptor: func(v, k string) (string, error) {
			s.Yield("decrypt<")
			out, err := encryptcookie.DecryptCookie(v, k)
			s.Yield("decrypt>")
			return out, err
		}}))
	app.Get("/set/:i", func(ctx fiber.Ctx) error {
		i := fiber.Params[int](ctx, "i")
		s.Yield("set<")
		for _, ck := range c.Clients[i] {
			ctx.Cookie(ck.fiber())
		}
		s.Yield("set>")
		return nil
	})
	seen := make([]map[string]string, len(c.Clients))
	app.Get("/get/:i", func(ctx fiber.Ctx) error {
		i := fiber.Params[int](ctx, "i")
		s.Yield("get<")
		m := map[string]string{}
		for _, cl := range c.Clients {
			for _, ck := range cl {
				if v := ctx.Cookies(ck.Name); v != "" || ctx.Request().Header.Cookie(ck.Name) != nil {
					m[ck.Name] = strings.Clone(v)
				}
			}
		}
		seen[i] = m
		return nil
	})
	h := app.Handler()
	do := func(path string, hdr ...string) *fasthttp.RequestCtx {
		ctx := &fasthttp.RequestCtx{}
		ctx.Request.Header.SetMethod("GET")
		ctx.Request.SetRequestURI(path)
		for i := 0; i+1 < len(hdr); i += 2 {
			ctx.Request.Header.Set(hdr[i], hdr[i+1])
		}
		h(ctx)
		return ctx
	}
	type outcome struct {
		setCookies map[string]string // everything the set response carries
		fail       string
	}
	outs := make([]outcome, len(c.Clients))
	for g := range c.Clients {
		g := g
		s.Spawn(g, func() {
			r := do(fmt.Sprintf("/set/%d", g))
			got := map[string]string{}
			r.Response.Header.VisitAllCookie(func(k, v []byte) {
				fc := fasthttp.AcquireCookie()
				_ = fc.ParseBytes(v)
				got[string(k)] = string(fc.Value())
				fasthttp.ReleaseCookie(fc)
			})
			outs[g].setCookies = got
			var parts []string
			for _, ck := range c.Clients[g] {
				parts = append(parts, ck.Name+"="+got[ck.Name])
			}
			do(fmt.Sprintf("/get/%d", g), "Cookie", strings.Join(parts, "; "))
		})
	}
	pi := 0
	res := s.Run(len(c.Clients), func(ready []int) int {
		p := 0
		if pi < len(c.Picks) {
			p = c.Picks[pi]
		}
		pi++
		return p
	})
	desc := fmt.Sprintf("%d clients inside one middleware instance at the same time, cookies %v\nschedule: %v", len(c.Clients), c.Clients, s.Trace)
	if len(res.Panics) > 0 {
		return vk.Failf("%s\npanic: %s", desc, res.Panics[0])
	}
	if res.Deadlock {
		return vk.Failf("%s\ndeadlock: tasks %v never finished", desc, res.Stuck)
	}
	for g, cl := range c.Clients {
		own := map[string]bool{}
		for _, ck := range cl {
			own[ck.Name] = true
			w, ok := outs[g].setCookies[ck.Name]
			if !ok {
				return vk.Failf("%s\nclient %d: the response lacks the cookie %q its handler set (it carries %v)", desc, g, ck.Name, outs[g].setCookies)
			}
			if w == string(ck.Value) {
				return vk.Failf("%s\nclient %d: cookie %q reaches the client as plaintext %q", desc, g, ck.Name, w)
			}
			if dec, err := encryptcookie.DecryptCookie(w, key); err != nil || dec != string(ck.Value) {
				return vk.Failf("%s\nclient %d: cookie %q is on the wire as %q, which decrypts to %q (%v), want %q", desc, g, ck.Name, w, dec, err, ck.Value)
			}
			if got := seen[g][ck.Name]; got != string(ck.Value) {
				return vk.Failf("%s\nclient %d: cookie %q set to %q comes back to the handler as %q", desc, g, ck.Name, ck.Value, got)
			}
		}
		for name := range outs[g].setCookies {
			if !own[name] {
				return vk.Failf("%s\nclient %d: the response carries cookie %q, which only another client's handler set", desc, g, name)
			}
		}
		for name := range seen[g] {
			if !own[name] {
				return vk.Failf("%s\nclient %d: the handler sees cookie %q=%q, which this client never sent", desc, g, name, seen[g][name])
			}
		}
	}
	overlap := false
	open := 0
	for _, ev := range s.Trace {
		switch {
		case strings.HasSuffix(ev, "@encrypt<"), strings.HasSuffix(ev, "@decrypt<"):
			open++
			if open > 1 {
				overlap = true
			}
		case strings.HasSuffix(ev, "@encrypt>"), strings.HasSuffix(ev, "@decrypt>"):
			open--
		}
	}
	v := vk.Verdict{NonTrivial: overlap}
	if overlap {
		v.Classes = append(v.Classes, "two-requests-inside-the-cookie-loops-at-once")
	}
	return v
}

var propConc = vk.Register(&vk.Prop[ConcCase]{Property: property, Name: "concurrent", Check: checkConc, Quick: 1500, Thorough: 6000,
	Gen: func(t *rapid.T) ConcCase {
		kl := rapid.SampledFrom([]int{16, 24, 32}).Draw(t, "kl")
		c := ConcCase{Key: rapid.SliceOfN(rapid.Byte(), kl, kl).Draw(t, "key")}
		n := rapid.IntRange(2, 3).Draw(t, "clients")
		for i := 0; i < n; i++ {
			k := rapid.IntRange(1, 2).Draw(t, "ncookies")
			var cl []Cookie
			for j := 0; j < k; j++ {
				cl = append(cl, Cookie{Name: fmt.Sprintf("c%d_%d", i, j), Value: []byte(rapid.StringMatching(`[a-z0-9]{4,12}`).Draw(t, "val")),
					Attr: rapid.SampledFrom([]string{"", "", "future", "secure"}).Draw(t, "attr")})
			}
			c.Clients = append(c.Clients, cl)
		}
		c.Picks = rapid.SliceOfN(rapid.IntRange(0, 2), 0, 40).Draw(t, "picks")
		return c
	}})

func TestConcurrent(t *testing.T) { propConc.Run(t) }
