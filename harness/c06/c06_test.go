package c06

import (
	"fmt"
	"sort"
	"strings"
	"testing"

	"github.com/gofiber/fiber/v3"
	"pgregory.net/rapid"

	"verifharness/vk"
)

const property = "C06"

func TestMain(m *testing.M) { vk.Main(m, property) }

func TestAAACorpus(t *testing.T)    { vk.TestCorpus(t, property) }
func TestAAAWitnesses(t *testing.T) { vk.TestWitnesses(t, property) }
func TestReplay(t *testing.T)       { vk.TestReplay(t) }

type Filler struct {
	ID, Rest, QK, QV, Name, Tag, Host, XName, Ck, Zz, Body string
	Proto2                                                 string `json:",omitempty"` // X-Forwarded-Proto value of this request (first header slot), when the probe carries that header
	Extra                                                  string `json:",omitempty"` // names of two more header lines (Q-<Extra>, R-<Extra>) in the first header slots
	Proto                                                  string // 1.1 | 1.0
	NCookies                                               int
	JSON                                                   bool
	NewConn                                                bool
}

type Case struct {
	// distinctive probe values
	ID, Rest, QName, T1, T2, H1, H2, XName, Ck, FName string
	JSONBody                                          bool
	CEnc                                              string `json:",omitempty"` // Content-Encoding of the probe: "" | identity | utf-8 | compress (none of them a supported compression: the body is taken as is)
	Fillers                                           []Filler
	Rewrite                                           bool   `json:",omitempty"` // the handler overrides path and method after reading the values (they must stay what they were until it returns)
	Miss                                              bool   `json:",omitempty"` // before the probe, a request that matches no route at all is answered by the application's ErrorHandler, which keeps what it read
	Proto                                             bool   `json:",omitempty"` // the probe carries X-Forwarded-Proto: https (in lower case, as proxies send it) in the first header slot
	After                                             bool   `json:",omitempty"` // before the probe, a GET that only the middleware matches (the endpoint is a POST route, a GET route with a constraint fails late): the middleware reads its parameter again after Next()
	Multi                                             bool   `json:",omitempty"` // the probe carries one header (X-Multi) in two lines, in the first header slots
	Rng                                               bool   `json:",omitempty"` // the probe carries Range: bytes=0-5 in the very first header slot; the handler keeps the unit that Range() hands out
	Pre                                               string `json:",omitempty"` // middleware in front of the endpoint: "" | mw-next (passes on) | mw-params (reads its own route parameter and other accessors, keeps them, passes on)
}

type capt struct {
	family string
	val    string // aliases whatever the accessor returned
	orig   string // deep copy taken at capture time
	sent   string // what the harness sent ("" = not asserted)
}

type Bound struct {
	Name string   `query:"name" form:"name" json:"name" header:"X-Name" cookie:"ck" uri:"id"`
	Tags []string `query:"tags" form:"tags" json:"tags"`
}

type run struct {
	preCaps   []capt // taken by the middleware of the probe request
	ehCaps    []capt // taken by the ErrorHandler for the unrouted request in front of the probe
	caps      []capt
	atReturn  []string // captures that had changed already when the handler returned
	wrongSent []string
}

func b2s(b []byte) string { return string(b) } // copy

// unsafeView returns a string header sharing the bytes of b (so later changes of b are visible).
func unsafeView(b []byte) string {
	if len(b) == 0 {
		return ""
	}
	return unsafeString(b)
}

func (r *run) capture(c fiber.Ctx, cs Case, probe bool) {
	var caps []capt
	add := func(fam, v, sent string) { caps = append(caps, capt{fam, v, strings.Clone(v), sent}) }
	addB := func(fam string, b []byte, sent string) { caps = append(caps, capt{fam, unsafeView(b), b2s(b), sent}) }
	// a response header in two lines (as Set-Cookie, Link, Vary often are); later responses use the slots for other names
	if probe {
		c.Response().Header.Add("X-Rmulti", cs.T1)
		c.Response().Header.Add("X-Rmulti", cs.T2)
	} else {
		c.Response().Header.Add("Q-Resp", "1")
		c.Response().Header.Add("R-Resp", "2")
	}
	add("Params", c.Params("id"), cs.ID)
	add("Params", c.Params("*"), cs.Rest)
	add("Path", c.Path(), "/u/"+cs.ID+"/"+cs.Rest)
	add("OriginalURL", c.OriginalURL(), "")
	add("Protocol", c.Protocol(), "HTTP/1.1")
	add("Method", c.Method(), "POST")
	add("Query", c.Query("name"), cs.QName)
	add("Get", c.Get("X-Name"), cs.XName)
	add("Get", c.Get("Content-Type"), "")
	add("Get", c.Get("Accept"), probeAccept)
	add("Cookies", c.Cookies("ck"), cs.Ck)
	add("Host", c.Host(), cs.H1+"."+cs.H2+".example.com")
	add("Hostname", c.Hostname(), cs.H1+"."+cs.H2+".example.com")
	// the generic accessors, instantiated for every kind of result that can alias a buffer
	addB("Query[[]byte]", fiber.Query[[]byte](c, "name"), cs.QName)
	add("Query[string]", fiber.Query[string](c, "name"), cs.QName)
	addB("GetReqHeader[[]byte]", fiber.GetReqHeader[[]byte](c, "X-Name"), cs.XName)
	add("GetReqHeader[string]", fiber.GetReqHeader[string](c, "X-Name"), cs.XName)
	add("Params[string]", fiber.Params[string](c, "id"), cs.ID)
	addB("Body", c.Body(), "")
	addB("BodyRaw", c.BodyRaw(), "")
	if !cs.JSONBody {
		add("FormValue", c.FormValue("fname"), cs.FName)
	}
	add("IP", c.IP(), "")
	for _, ip := range c.IPs() {
		add("IPs", ip, "")
	}
	if cs.Rng && probe {
		if rg, err := c.Range(1000); err == nil {
			add("Range().Type", rg.Type, "bytes")
		} else {
			add("Range() error", err.Error(), "no error")
		}
	}
	scheme := "http"
	if cs.Proto && probe {
		scheme = "https" // announced by the proxy in front (X-Forwarded-Proto)
	}
	if probe {
		add("BaseURL", c.BaseURL(), scheme+"://"+cs.H1+"."+cs.H2+".example.com")
		add("Scheme", c.Scheme(), scheme)
	} else {
		add("BaseURL", c.BaseURL(), "")
		add("Scheme", c.Scheme(), "")
	}
	for _, s := range c.Subdomains() {
		add("Subdomains", s, "")
	}
	qs := c.Queries()
	qk := make([]string, 0, len(qs))
	for k := range qs {
		qk = append(qk, k)
	}
	sort.Strings(qk)
	for _, k := range qk {
		add("Queries", k, "")
		add("Queries", qs[k], "")
	}
	hs := c.GetReqHeaders()
	hk := make([]string, 0, len(hs))
	for k := range hs {
		hk = append(hk, k)
	}
	sort.Strings(hk)
	for _, k := range hk {
		add("GetReqHeaders", k, "")
		for _, v := range hs[k] {
			add("GetReqHeaders", v, "")
		}
	}
	rh := c.GetRespHeaders()
	rk := make([]string, 0, len(rh))
	for k := range rh {
		rk = append(rk, k)
	}
	sort.Strings(rk)
	for _, k := range rk {
		add("GetRespHeaders", k, "")
		for _, v := range rh[k] {
			add("GetRespHeaders", v, "")
		}
	}
	if probe && cs.Multi {
		if got := strings.Join(hs["X-Multi"], ","); got != cs.T1+","+cs.T2 {
			add("GetReqHeaders[X-Multi]", got, cs.T1+","+cs.T2)
		}
	}
	var q, h, ck, f, u, bd Bound
	_ = c.Bind().Query(&q)
	add("Bind.Query", q.Name, cs.QName)
	for _, tg := range q.Tags {
		add("Bind.Query", tg, "")
	}
	_ = c.Bind().Header(&h)
	add("Bind.Header", h.Name, cs.XName)
	_ = c.Bind().Cookie(&ck)
	add("Bind.Cookie", ck.Name, cs.Ck)
	if cs.JSONBody {
		_ = c.Bind().Body(&bd)
		add("Bind.JSON", bd.Name, cs.FName)
	} else {
		_ = c.Bind().Form(&f)
		add("Bind.Form", f.Name, cs.FName)
	}
	_ = c.Bind().URI(&u)
	add("Bind.URI", u.Name, cs.ID)
	m := map[string]string{}
	_ = c.Bind().Query(m)
	mk := make([]string, 0, len(m))
	for k := range m {
		mk = append(mk, k)
	}
	sort.Strings(mk)
	for _, k := range mk {
		add("Bind.QueryMap", k, "")
		add("Bind.QueryMap", m[k], "")
	}
	add("Route.Path", c.Route().Path, "")
	add("String", c.String(), "")
	// call the remaining accessors and response writers, then check stability until the handler returns
	_ = vk.Observe(c)
	c.Set("X-Echo", "1")
	_ = c.SendString("probe")
	if !probe {
		return
	}
	if cs.Rewrite {
		// what rewrite / method-override middleware does while the handler still holds the values it read before
		c.Path("/" + strings.Repeat("z", len("/u/"+cs.ID+"/"+cs.Rest)-1)) // as long as the original path: fits its buffer
		c.Method("PUT")
		c.Path("/" + strings.Repeat("y", len("/u/"+cs.ID+"/"+cs.Rest)-1)) // and once more (two rewrite rules in a row)
	}
	for _, cp := range caps {
		if cp.val != cp.orig {
			r.atReturn = append(r.atReturn, fmt.Sprintf("%s: %q -> %q", cp.family, cp.orig, cp.val))
		}
		if cp.sent != "" && cp.orig != cp.sent {
			r.wrongSent = append(r.wrongSent, fmt.Sprintf("%s: got %q, sent %q", cp.family, cp.orig, cp.sent))
		}
	}
	for _, cp := range append(append([]capt{}, r.ehCaps...), r.preCaps...) {
		// what the error handler (for the unrouted request) and the middleware read is what was sent, too
		if cp.sent != "" && cp.orig != cp.sent {
			r.wrongSent = append(r.wrongSent, fmt.Sprintf("%s: got %q, sent %q", cp.family, cp.orig, cp.sent))
		}
	}
	r.caps = append(append(append([]capt{}, r.ehCaps...), r.preCaps...), caps...)
}

// probeAccept: parameter names in capitals (negotiation compares them without regard to case)
const probeAccept = "text/html;Level=1;Charset=UTF-8;q=0.5, */*;Q=0.1"

func (cs Case) probeWire() string {
	body := "name=" + cs.FName + "&fname=" + cs.FName + "&tags=" + cs.T1
	ct := "application/x-www-form-urlencoded"
	if cs.JSONBody {
		body = fmt.Sprintf(`{"name":"%s","tags":["%s","%s"]}`, cs.FName, cs.T1, cs.T2)
		ct = "application/json"
	}
	ce := ""
	if cs.CEnc != "" {
		ce = "Content-Encoding: " + cs.CEnc + "\r\n"
	}
	multi := ""
	if cs.Multi {
		multi = "X-Multi: " + cs.T1 + "\r\nX-Multi: " + cs.T2 + "\r\n" // one header in two lines
	}
	if cs.Proto {
		multi = "X-Forwarded-Proto: https\r\n" + multi // the first header slot; later requests carry other values there
	}
	if cs.Rng {
		multi = "Range: bytes=0-5\r\n" + multi
	}
	return fmt.Sprintf("POST /u/%s/%s?probe=1&name=%s&tags=%s&tags=%s HTTP/1.1\r\nHost: %s.%s.example.com\r\n"+multi+"X-Name: %s\r\nAccept: %s\r\nCookie: ck=%s; other=%s\r\nX-Forwarded-For: 1.2.3.4, 5.6.7.8\r\n%sContent-Type: %s\r\nContent-Length: %d\r\n\r\n%s",
		cs.ID, cs.Rest, cs.QName, cs.T1, cs.T2, cs.H1, cs.H2, cs.XName, probeAccept, cs.Ck, cs.T1, ce, ct, len(body), body)
}

func (f Filler) protoLine() string {
	if f.Proto2 == "" {
		return ""
	}
	return "X-Forwarded-Proto: " + f.Proto2 + "\r\n"
}

func (f Filler) wire() string {
	ka := ""
	if f.Proto == "1.0" {
		ka = "Connection: keep-alive\r\n"
	}
	body := "name=" + f.Body + "&fname=" + f.Body + "&tags=" + f.Tag
	ct := "application/x-www-form-urlencoded"
	if f.JSON {
		body = fmt.Sprintf(`{"name":"%s","tags":["%s"]}`, f.Body, f.Tag)
		ct = "application/json"
	}
	cookies := "ck=" + f.Ck
	for i := 0; i < f.NCookies; i++ {
		cookies += fmt.Sprintf("; z%d=%s", i, f.Zz)
	}
	return fmt.Sprintf("POST /u/%s/%s?%s=%s&name=%s&tags=%s HTTP/%s\r\nHost: %s.EXAMPLE.ORG\r\n"+f.protoLine()+fmt.Sprintf("Q-%s: 1\r\nR-%s: 2\r\n", f.Extra, f.Extra)+"%sX-Name: %s\r\nCookie: %s\r\nX-Forwarded-For: 9.9.9.9, 8.8.8.8, 7.7.7.7\r\nContent-Type: %s\r\nContent-Length: %d\r\n\r\n%s",
		f.ID, f.Rest, f.QK, f.QV, f.Name, f.Tag, f.Proto, f.Host, ka, f.XName, cookies, ct, len(body), body)
}

func exchange(cs Case, immutable bool) (*run, error) {
	r := &run{}
	app := fiber.New(fiber.Config{Immutable: immutable, ProxyHeader: "X-Forwarded-For", ErrorHandler: func(c fiber.Ctx, err error) error {
		if c.Query("probe") == "1" {
			// an error handler that keeps what it saw (for a log line, a metric label, ...)
			add := func(fam, v, sent string) { r.ehCaps = append(r.ehCaps, capt{fam, v, strings.Clone(v), sent}) }
			add("Route().Path(errorhandler)", c.Route().Path, "")
			add("Path(errorhandler)", c.Path(), "/nowhere/"+cs.ID+"/"+cs.Rest)
			add("OriginalURL(errorhandler)", c.OriginalURL(), "")
			add("Method(errorhandler)", c.Method(), "GET")
			add("Get(errorhandler)", c.Get("X-Name"), cs.XName)
			add("error text(errorhandler)", err.Error(), "")
		}
		return fiber.DefaultErrorHandler(c, err)
	}})
	if cs.Pre != "" {
		app.Use("/u/:uid", func(c fiber.Ctx) error {
			if cs.Pre == "mw-params" {
				var caps []capt
				add := func(fam, v, sent string) { caps = append(caps, capt{fam, v, strings.Clone(v), sent}) }
				add("Params(middleware)", c.Params("uid"), cs.ID)
				add("Path(middleware)", c.Path(), "")
				add("Query(middleware)", c.Query("name"), cs.QName)
				add("Get(middleware)", c.Get("X-Name"), cs.XName)
				if c.Query("probe") == "1" {
					r.preCaps = caps
				}
			}
			return c.Next()
		})
	}
	if cs.After {
		// a middleware that reads its parameter again after Next() returned, on a request that no later route matches
		// (one route of the same method fails late: its constant and its parameter fit, the constraint does not): the
		// middleware is still the current route, and what it reads again is what it read before
		app.Use("/w/:wid", func(c fiber.Ctx) error {
			before := strings.Clone(c.Params("wid"))
			err := c.Next()
			if again := c.Params("wid"); again != before {
				r.atReturn = append(r.atReturn, fmt.Sprintf("Params(wid) read again by the middleware after Next() returned (no later route matched, Route().Path=%q): %q -> %q", c.Route().Path, before, again))
			}
			return err
		})
		app.Get("/w/"+cs.ID[:1]+":rest<int>", func(c fiber.Ctx) error { return c.SendString("int") })
	}
	app.Post("/u/:id/*", func(c fiber.Ctx) error {
		r2 := r
		if c.Query("probe") != "1" {
			r2 = &run{}
		}
		r2.capture(c, cs, c.Query("probe") == "1")
		return nil
	})
	conn := cs.probeWire()
	if cs.After {
		conn = fmt.Sprintf("GET /w/%s%.0s?after=1 HTTP/1.1\r\nHost: %s.example.com\r\n\r\n", cs.ID, cs.Rest, cs.H1) + conn
	}
	if cs.Miss {
		conn = fmt.Sprintf("GET /nowhere/%s/%s?probe=1 HTTP/1.1\r\nHost: %s.example.com\r\nX-Name: %s\r\n\r\n", cs.ID, cs.Rest, cs.H1, cs.XName) + conn
	}
	var conns []string
	for _, f := range cs.Fillers {
		if f.NewConn {
			conns = append(conns, conn)
			conn = ""
		}
		conn += f.wire()
	}
	conns = append(conns, conn)
	for _, raw := range conns {
		if _, err := vk.Wire(app, []byte(raw)); err != nil {
			return nil, err
		}
	}
	return r, nil
}

func check(cs Case) vk.Verdict {
	ctl, err := exchange(cs, false)
	if err != nil {
		return vk.Failf("Immutable=false: %v", err)
	}
	imm, err := exchange(cs, true)
	if err != nil {
		return vk.Failf("Immutable=true: %v", err)
	}
	if len(ctl.caps) == 0 || len(imm.caps) == 0 {
		return vk.Failf("the probe handler did not run (request %q)", cs.probeWire())
	}
	for _, rr := range []struct {
		name string
		r    *run
	}{{"Immutable=false", ctl}, {"Immutable=true", imm}} {
		if len(rr.r.atReturn) > 0 {
			return vk.Failf("%s: values changed before the handler returned: %v", rr.name, rr.r.atReturn)
		}
		if len(rr.r.wrongSent) > 0 {
			return vk.Failf("%s: accessor does not return what was sent: %v (request %q)", rr.name, rr.r.wrongSent, cs.probeWire())
		}
	}
	var broken []string
	for _, cp := range imm.caps {
		if cp.val != cp.orig {
			broken = append(broken, fmt.Sprintf("%s: %q -> %q", cp.family, cp.orig, cp.val))
		}
	}
	if len(broken) > 0 {
		return vk.Failf("Immutable=true: values taken from the context changed after %d later requests re-used the context and buffers: %v", len(cs.Fillers), broken)
	}
	v := vk.Verdict{}
	hot := map[string]bool{}
	for _, cp := range ctl.caps {
		if cp.orig != "" && cp.val != cp.orig {
			hot[cp.family] = true
		}
	}
	for f := range hot {
		v.Classes = append(v.Classes, "hot:"+f)
	}
	sort.Strings(v.Classes)
	v.NonTrivial = len(hot) > 0
	if cs.CEnc != "" {
		v.Classes = append(v.Classes, "probe-content-encoding")
	}
	if cs.Pre != "" {
		v.Classes = append(v.Classes, "pre:"+cs.Pre)
	}
	if cs.Miss {
		v.Classes = append(v.Classes, "unrouted-request-seen-by-errorhandler")
	}
	return v
}

func word(t *rapid.T, label string, lo, hi int) string {
	return rapid.StringMatching(fmt.Sprintf("[a-z]{%d,%d}", lo, hi)).Draw(t, label)
}

func genCase(t *rapid.T) Case {
	// (path values in mixed case: what the accessors hand out keeps the spelling of the request)
	mixed := func(label string) string { return rapid.StringMatching("[a-zA-Z]{3,9}").Draw(t, label) }
	cs := Case{ID: mixed("id"), Rest: mixed("rest"), QName: word(t, "qn", 3, 9), T1: word(t, "t1", 2, 5), T2: word(t, "t2", 2, 5),
		H1: word(t, "h1", 2, 5), H2: word(t, "h2", 2, 5), XName: word(t, "xn", 3, 9), Ck: word(t, "ck", 3, 9), FName: word(t, "fn", 3, 9), JSONBody: rapid.IntRange(0, 3).Draw(t, "json") == 0,
		CEnc: rapid.SampledFrom([]string{"", "", "", "identity", "utf-8", "compress"}).Draw(t, "cenc"),
		Pre:  rapid.SampledFrom([]string{"", "", "mw-next", "mw-params", "mw-params"}).Draw(t, "pre"), Rewrite: rapid.IntRange(0, 3).Draw(t, "rewrite") == 0, Miss: rapid.IntRange(0, 2).Draw(t, "miss") == 0, Multi: rapid.Bool().Draw(t, "multi"), After: rapid.Bool().Draw(t, "after"), Proto: rapid.Bool().Draw(t, "proto"), Rng: rapid.Bool().Draw(t, "rng")}
	n := rapid.IntRange(1, 20).Draw(t, "nfill")
	up := func(label string, lo, hi int) string { return strings.ToUpper(word(t, label, lo, hi)) }
	for i := 0; i < n; i++ {
		cs.Fillers = append(cs.Fillers, Filler{ID: up("fid", 1, 14), Rest: up("frest", 1, 14), QK: up("fk", 1, 6), QV: up("fv", 1, 6), Name: up("fqn", 1, 14), Tag: up("ft", 1, 8),
			Host: up("fh", 1, 12), XName: up("fxn", 1, 14), Ck: up("fck", 1, 14), Zz: up("fzz", 1, 6), Body: up("fb", 1, 40), Extra: up("fextra", 1, 5), Proto2: map[bool]string{true: rapid.SampledFrom([]string{"wss", "HTTPs", "http", "ftp"}).Draw(t, "fproto")}[cs.Proto],
			Proto: rapid.SampledFrom([]string{"1.1", "1.1", "1.0"}).Draw(t, "proto"), NCookies: rapid.IntRange(0, 4).Draw(t, "ncookies"),
			JSON: rapid.IntRange(0, 3).Draw(t, "fjson") == 0, NewConn: rapid.IntRange(0, 5).Draw(t, "newconn") == 0})
	}
	return cs
}

var propImm = vk.Register(&vk.Prop[Case]{Property: property, Name: "immutable", Gen: genCase, Check: check, Quick: 3000, Thorough: 15000})

func TestImmutable(t *testing.T) { propImm.Run(t) }
