package c06

import "unsafe"

func unsafeString(b []byte) string { return unsafe.String(unsafe.SliceData(b), len(b)) }
