package c16

import (
	"flag"
	"fmt"
	"strings"
	"testing"
	"time"

	"github.com/gofiber/fiber/v3"
	"github.com/gofiber/fiber/v3/middleware/csrf"
	"github.com/gofiber/fiber/v3/middleware/session"
	"pgregory.net/rapid"

	"verifharness/vk"
)

// ---- "unexpired": tokens kept in the session end with the wall clock ------------------------------------------------
//
// The session backend measures a token's life with the real clock (the histories above therefore never let time pass
// for it). Here real time passes: a client obtains a token (IdleTimeout one second), waits more than two seconds, and
// presents it with an unsafe request - it must be refused. A second client that presents its token at once is served.
// In this process nothing else keeps the cached clock of gofiber/utils running (the harness owns it and it stands
// still), as in an application whose other components use external storages only.

type SessClockCase struct {
	ExtraMs   int
	SingleUse bool
	Extractor string // header | form
}

func checkSessClock(c SessClockCase) vk.Verdict {
	clockMu.Lock()
	defer clockMu.Unlock()
	vk.SetNow(7_500_000)
	sst := vk.NewStorage()
	sst.NoTTL = true
	sessMW, store := session.NewWithStore(session.Config{Storage: sst})
	cfg := csrf.Config{Session: store, IdleTimeout: time.Second, SingleUseToken: c.SingleUse}
	if c.Extractor == "form" {
		cfg.Extractor = csrf.FromForm("_csrf")
	}
	app := fiber.New()
	app.Use(sessMW)
	app.Use(csrf.New(cfg))
	ran := 0
	app.All("/", func(ctx fiber.Ctx) error { ran++; return ctx.SendString("ok") })
	cookies := func(hdrs [][]byte) (tok, sess string) {
		for _, h := range hdrs {
			v := string(h)
			if i := strings.IndexByte(v, ';'); i >= 0 {
				v = v[:i]
			}
			if strings.HasPrefix(v, "csrf_=") {
				tok = strings.TrimPrefix(v, "csrf_=")
			}
			if strings.HasPrefix(v, "session_id=") {
				sess = strings.TrimPrefix(v, "session_id=")
			}
		}
		return
	}
	obtain := func() (string, string, string) {
		r := vk.Do(app, "GET", "/")
		var lines [][]byte
		r.Response.Header.VisitAllCookie(func(_, v []byte) { lines = append(lines, append([]byte(nil), v...)) })
		tok, sess := cookies(lines)
		if tok == "" || sess == "" {
			return "", "", fmt.Sprintf("GET / handed out token %q and session %q", tok, sess)
		}
		return tok, sess, ""
	}
	post := func(tok, sess string) int {
		hdr := []string{"Cookie", "csrf_=" + tok + "; session_id=" + sess}
		var body []byte
		if c.Extractor == "form" {
			body = []byte("_csrf=" + tok)
			hdr = append(hdr, "Content-Type", "application/x-www-form-urlencoded")
		} else {
			hdr = append(hdr, "X-Csrf-Token", tok)
		}
		return vk.DoAddr(app, nil, "POST", "/", body, hdr...).Response.StatusCode()
	}
	oldTok, oldSess, msg := obtain()
	if msg != "" {
		return vk.Failf("%s", msg)
	}
	time.Sleep(2200*time.Millisecond + time.Duration(c.ExtraMs)*time.Millisecond)
	before := ran
	if st := post(oldTok, oldSess); st != fiber.StatusForbidden || ran != before {
		return vk.Failf("SESSION-CLOCK a token kept in the session (IdleTimeout 1 s) was presented more than 2 s after it had been issued: status %d, protected handler ran: %v (want 403, not run)", st, ran != before)
	}
	tok, sess, msg := obtain()
	if msg != "" {
		return vk.Failf("%s", msg)
	}
	before = ran
	if st := post(tok, sess); st != fiber.StatusOK || ran != before+1 {
		return vk.Failf("a token presented right after it was issued: status %d, protected handler ran: %v (want 200, run)", st, ran != before)
	}
	return vk.Verdict{NonTrivial: true, Classes: []string{"session-token-outlived-its-idle-timeout", "extractor:" + c.Extractor}}
}

var propSessClock = vk.Register(&vk.Prop[SessClockCase]{Property: property, Name: "sessionclock", Check: checkSessClock, Quick: 2, Thorough: 8,
	Gen: func(t *rapid.T) SessClockCase {
		return SessClockCase{ExtraMs: rapid.IntRange(0, 600).Draw(t, "extra"), SingleUse: rapid.Bool().Draw(t, "single"), Extractor: rapid.SampledFrom([]string{"header", "form"}).Draw(t, "extractor")}
	}})

func TestSessionClock(t *testing.T) {
	_ = flag.Set("rapid.shrinktime", "1ns") // cases run in real time: no minimisation
	defer func() { _ = flag.Set("rapid.shrinktime", "30s") }()
	propSessClock.Run(t)
}
