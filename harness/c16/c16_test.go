package c16

import (
	"fmt"
	"net/url"
	"strings"
	"sync"
	"testing"
	"time"

	"github.com/gofiber/fiber/v3"
	"github.com/gofiber/fiber/v3/middleware/csrf"
	"github.com/gofiber/fiber/v3/middleware/session"
	"github.com/valyala/fasthttp"
	"pgregory.net/rapid"

	"verifharness/vk"
)

const property = "C16"

func TestMain(m *testing.M) { vk.Main(m, property) }

func TestAAACorpus(t *testing.T)    { vk.TestCorpus(t, property) }
func TestAAAWitnesses(t *testing.T) { vk.TestWitnesses(t, property) }
func TestReplay(t *testing.T)       { vk.TestReplay(t) }

type Op struct {
	Kind        string // req | adv | logout (DeleteToken)
	Client      int    `json:",omitempty"`
	Method      string `json:",omitempty"`
	Cookie      string `json:",omitempty"` // own | none | forged | other | dead
	Token       string `json:",omitempty"` // same (as cookie) | none | forged | other | dead | own (the client's token even if the cookie sent differs)
	Pick        int    `json:",omitempty"`
	Scheme      string `json:",omitempty"`
	Origin      string `json:",omitempty"`
	Referer     string `json:",omitempty"`
	Dt          int    `json:",omitempty"`
	FailConsume bool   `json:",omitempty"` // session backend without the session middleware, single-use: the session store's storage refuses the write that records the consumption
}

type Case struct {
	Backend   string // vk | memory | session
	Extractor string // header | form | query | param | cookie
	Lookup    string `json:",omitempty"` // "" = explicit Extractor only | key = no Extractor, the source is named by KeyLookup | stale = explicit Extractor plus a KeyLookup that names another source (documented: the Extractor is used in its place)
	SingleUse bool
	Idle      int   // seconds (storage backends)
	FailGet   []int // injected storage faults (vk backend)
	FailDel   []int
	Conn      bool `json:",omitempty"` // all requests are served by one recycled RequestCtx (one keep-alive connection shared by the clients, as behind a proxy)
	OwnEH     bool `json:",omitempty"` // Config.ErrorHandler is the application's own and answers 403 itself (returns nil)
	ProtoCaps bool `json:",omitempty"` // the proxy in front announces https in capitals (X-Forwarded-Proto: HTTPS)
	SessNoMW  bool `json:",omitempty"` // session backend without the session middleware in the chain (csrf loads and saves the session through the store itself)
	Ops       []Op
}

const host = "site.test"

var trustedCfg = []string{"https://trusted.test", "https://*.wild.test", "http://plain.test:8080", " https://*.pad.test "} // (the last one padded with blanks, as entries split from a list often are)

// originOK is the independent origin model: same origin (scheme+host of the request) or a configured trusted origin
// (exact origin, or wildcard entry matching the scheme and a dot-separated host suffix - host, never path).
func originAllowed(raw, reqScheme string) bool {
	u, err := url.Parse(strings.ToLower(raw))
	if err != nil || u.Host == "" {
		return false
	}
	if u.Scheme == reqScheme && u.Host == host {
		return true
	}
	if u.Scheme == "https" && u.Host == "trusted.test" {
		return true
	}
	if u.Scheme == "http" && u.Host == "plain.test:8080" {
		return true
	}
	if u.Scheme == "https" && strings.HasSuffix(u.Host, ".wild.test") && len(u.Host) > len(".wild.test") {
		return true
	}
	if u.Scheme == "https" && strings.HasSuffix(u.Host, ".pad.test") && len(u.Host) > len(".pad.test") {
		return true
	}
	return false
}

func originOK(op Op) bool {
	lo := strings.ToLower(op.Origin)
	if lo == "" || lo == "null" {
		if op.Scheme != "https" {
			return true
		}
		if op.Referer == "" {
			return false
		}
		return originAllowed(op.Referer, op.Scheme)
	}
	return originAllowed(op.Origin, op.Scheme)
}

var clockMu sync.Mutex

type client struct {
	cookie  string // csrf cookie token held
	session string // session cookie (session backend)
}

func check(c Case) vk.Verdict {
	clockMu.Lock()
	defer clockMu.Unlock()
	vk.SetNow(7_000_000)
	ctr := 0
	issued := map[string]bool{}
	cfg := csrf.Config{SingleUseToken: c.SingleUse, IdleTimeout: time.Duration(c.Idle) * time.Second, TrustedOrigins: trustedCfg,
		KeyGenerator: func() string { ctr++; id := fmt.Sprintf("tok%d", ctr); issued[id] = true; return id }}
	if c.OwnEH {
		// the usual custom error handler: it writes the answer itself (and so returns nil)
		cfg.ErrorHandler = func(ctx fiber.Ctx, _ error) error {
			return ctx.Status(fiber.StatusForbidden).SendString("denied by the application")
		}
	}
	var st, sst *vk.Storage // token storage (storage backends) / the session store's storage (session backend)
	var sessStore *session.Store
	var sessMW fiber.Handler
	sctr := 0
	switch c.Backend {
	case "vk", "vk-retain":
		st = vk.NewStorage()
		st.Retain = c.Backend == "vk-retain"
		st.FailGet, st.FailDelete = map[int]bool{}, map[int]bool{}
		for _, n := range c.FailGet {
			st.FailGet[n] = true
		}
		for _, n := range c.FailDel {
			st.FailDelete[n] = true
		}
		cfg.Storage = st
	case "session":
		sst = vk.NewStorage()
		sessMW, sessStore = session.NewWithStore(session.Config{Storage: sst, KeyGenerator: func() string { sctr++; return fmt.Sprintf("sess%d", sctr) }})
		cfg.Session = sessStore
		cfg.IdleTimeout = time.Hour
	}
	route := "/"
	switch c.Extractor {
	case "header":
		cfg.Extractor = csrf.FromHeader("X-Csrf-Token")
	case "query":
		cfg.Extractor = csrf.FromQuery("_csrf")
	case "form":
		cfg.Extractor = csrf.FromForm("_csrf")
	case "param":
		cfg.Extractor = csrf.FromParam("tok")
		route = "/t/:tok?"
	case "cookie":
		cfg.Extractor = csrf.FromCookie("csrf_")
	}
	switch c.Lookup {
	case "key":
		cfg.Extractor = nil
		cfg.KeyLookup = map[string]string{"header": "header:X-Csrf-Token", "query": "query:_csrf", "form": "form:_csrf", "param": "param:tok", "cookie": "cookie:csrf_"}[c.Extractor]
	case "stale":
		cfg.KeyLookup = "cookie:csrf_"
		if c.Extractor == "cookie" {
			cfg.KeyLookup = "header:X-Other"
		}
	}
	app := fiber.New()
	if sessMW != nil && !c.SessNoMW {
		app.Use(sessMW)
	}
	ran := false
	// the csrf middleware is attached to the routes so that the "param" extractor sees the route parameter
	mw := csrf.New(cfg)
	app.Get("/logout", mw, func(ctx fiber.Ctx) error {
		if h := csrf.HandlerFromContext(ctx); h != nil {
			return h.DeleteToken(ctx)
		}
		return nil
	})
	app.All(route, mw, func(ctx fiber.Ctx) error { ran = true; return ctx.SendString("ok") })

	// model
	type tokrec struct{ exp uint32 }
	live := map[string]*tokrec{}   // storage backends
	sessTok := map[string]string{} // session backend: session id -> its token
	conn := &vk.Reuse{}
	clients := []*client{{}, {}}
	var dead []string
	isLive := func(tok string, cl *client) bool {
		if tok == "" || !issued[tok] {
			return false
		}
		if c.Backend == "session" {
			return cl.session != "" && sessTok[cl.session] == tok
		}
		r := live[tok]
		return r != nil && vk.Now() < r.exp
	}
	kill := func(tok string) {
		if tok != "" && issued[tok] {
			dead = append(dead, tok)
		}
	}
	v := vk.Verdict{Classes: []string{"backend:" + c.Backend, "extractor:" + c.Extractor}}
	if c.SessNoMW {
		v.Classes = append(v.Classes, "session-store-only")
	}
	nt := false
	passedUnsafe := 0
	for i, op := range c.Ops {
		if op.Kind == "adv" {
			vk.Advance(uint32(op.Dt))
			continue
		}
		cl := clients[op.Client]
		other := clients[1-op.Client]
		cookieTok := ""
		switch op.Cookie {
		case "own":
			cookieTok = cl.cookie
		case "forged":
			cookieTok = "forged"
		case "other":
			cookieTok = other.cookie
		case "dead":
			if len(dead) > 0 {
				cookieTok = dead[op.Pick%len(dead)]
			}
		}
		sentTok := cookieTok
		switch op.Token {
		case "none":
			sentTok = ""
		case "forged":
			sentTok = "forged2"
		case "other":
			sentTok = other.cookie
		case "dead":
			if len(dead) > 0 {
				sentTok = dead[(op.Pick+1)%len(dead)]
			}
		case "own":
			sentTok = cl.cookie // the client's live token through the extractor, whatever cookie goes with it (none, forged, ...)
		}
		if c.Extractor == "cookie" {
			sentTok = cookieTok
		}
		safe := op.Method == "GET" || op.Method == "HEAD" || op.Method == "OPTIONS" || op.Method == "TRACE"
		hdr := []string{"Host", host}
		if op.Scheme == "https" {
			proto := "https"
			if c.ProtoCaps {
				proto = "HTTPS" // scheme names compare without regard to case (RFC 3986 3.1)
			}
			hdr = append(hdr, "X-Forwarded-Proto", proto)
		}
		var cookies []string
		if cookieTok != "" {
			cookies = append(cookies, "csrf_="+cookieTok)
		}
		if c.Backend == "session" && cl.session != "" {
			cookies = append(cookies, "session_id="+cl.session)
		}
		if len(cookies) > 0 {
			hdr = append(hdr, "Cookie", strings.Join(cookies, "; "))
		}
		if op.Origin != "" {
			hdr = append(hdr, "Origin", op.Origin)
		}
		if op.Referer != "" {
			hdr = append(hdr, "Referer", op.Referer)
		}
		uri := "/"
		if c.Extractor == "param" {
			uri = "/t"
		}
		var body []byte
		if op.Kind == "logout" {
			uri = "/logout"
			safe = true
			op.Method = "GET"
		} else if !safe && sentTok != "" {
			switch c.Extractor {
			case "header":
				hdr = append(hdr, "X-Csrf-Token", sentTok)
			case "query":
				uri = "/?_csrf=" + sentTok
			case "form":
				body = []byte("_csrf=" + sentTok)
				hdr = append(hdr, "Content-Type", "application/x-www-form-urlencoded")
			case "param":
				uri = "/t/" + sentTok
			}
		}
		wasLive := isLive(sentTok, cl)
		cookieWasLive := isLive(cookieTok, cl)
		var nGet0, nDel0 int
		if st != nil {
			nGet0, _, nDel0 = st.Counts()
		}
		ran = false
		ctrBefore := ctr
		sessSetFault := false
		if op.FailConsume && sst != nil && c.SessNoMW && c.SingleUse && !safe {
			// the session store's storage refuses the next write: the consumption of the token cannot be recorded
			sst.FailNextSet()
			sessSetFault = true
		}
		var resp *fasthttp.RequestCtx
		if c.Conn {
			resp = conn.DoBody(app, op.Method, uri, body, hdr...)
		} else {
			resp = vk.DoAddr(app, nil, op.Method, uri, body, hdr...)
		}
		getFault, delFault := false, false
		if st != nil {
			ng, _, nd := st.Counts()
			for n := nGet0 + 1; n <= ng; n++ {
				getFault = getFault || st.FailGet[n]
			}
			for n := nDel0 + 1; n <= nd; n++ {
				delFault = delFault || st.FailDelete[n]
			}
		}
		ctx := fmt.Sprintf("op %d: client %d %s %s (%s) cookie=%q token=%q via %s, Origin=%q Referer=%q, backend=%s single=%v, t=+%ds, status %d", i, op.Client, op.Method, uri, op.Scheme, cookieTok, sentTok, c.Extractor, op.Origin, op.Referer, c.Backend, c.SingleUse, vk.Now()-7_000_000, resp.Response.StatusCode())
		// learn the response cookies
		newCookie, cookieSet := "", false
		ck := fasthttp.AcquireCookie()
		ck.SetKey("csrf_")
		if resp.Response.Header.Cookie(ck) {
			cookieSet = true
			newCookie = string(ck.Value())
			if !ck.Expire().IsZero() && ck.Expire().Before(time.Now()) {
				newCookie = ""
			}
		}
		fasthttp.ReleaseCookie(ck)
		if c.Backend == "session" {
			sk := fasthttp.AcquireCookie()
			sk.SetKey("session_id")
			if resp.Response.Header.Cookie(sk) && len(sk.Value()) > 0 && sk.MaxAge() >= 0 {
				cl.session = string(sk.Value())
			}
			fasthttp.ReleaseCookie(sk)
		}
		if op.Kind == "logout" {
			// 1. the middleware treats GET /logout as a safe request: the cookie token is kept (extended) if live, else a new
			//    token is generated and stored. 2. DeleteToken deletes the token named by the REQUEST cookie and expires the cookie.
			gen := ""
			if ctr > ctrBefore {
				gen = fmt.Sprintf("tok%d", ctr)
			}
			if c.Backend == "session" {
				if cl.session != "" {
					if gen != "" {
						sessTok[cl.session] = gen
					}
					if cookieTok != "" {
						delete(sessTok, cl.session)
					}
				}
			} else {
				if gen != "" {
					live[gen] = &tokrec{exp: vk.Now() + uint32(c.Idle)}
				} else if cookieWasLive {
					live[cookieTok] = &tokrec{exp: vk.Now() + uint32(c.Idle)}
				}
				if cookieTok != "" && !delFault {
					delete(live, cookieTok)
				}
			}
			if cookieTok != "" {
				kill(cookieTok)
				cl.cookie = ""
			} else {
				cl.cookie = newCookie
			}
			continue
		}
		if safe {
			if !ran {
				return vk.Failf("%s: a safe method was blocked", ctx)
			}
			if !cookieSet || newCookie == "" {
				return vk.Failf("%s: the response to a safe method leaves no token cookie", ctx)
			}
			// the middleware keeps the cookie token if it is live, else issues a new one
			tok := newCookie
			if !issued[tok] {
				return vk.Failf("%s: the token cookie %q was not generated by the server", ctx, tok)
			}
			if tok == cookieTok && !cookieWasLive {
				return vk.Failf("%s: the response re-issues token %q which was not live", ctx, tok)
			}
			if c.Backend == "session" {
				if cl.session == "" {
					return vk.Failf("%s: session backend but no session cookie was issued", ctx)
				}
				sessTok[cl.session] = tok
			} else {
				live[tok] = &tokrec{exp: vk.Now() + uint32(c.Idle)}
			}
			if st != nil && !st.Has(tok) {
				return vk.Failf("%s: the token cookie %q is not in the token store (keys %v)", ctx, tok, st.Keys())
			}
			cl.cookie = tok
			continue
		}
		// unsafe method
		if op.Origin != "" || op.Referer != "" || (sentTok != "" && issued[sentTok]) {
			nt = true
		}
		if !ran {
			// rejected: the only state change fiber may make is expiring the cookie
			if resp.Response.StatusCode() == 200 {
				return vk.Failf("%s: handler did not run but status is 200", ctx)
			}
			continue
		}
		passedUnsafe++
		if !wasLive {
			lg := []string{}
			if st != nil {
				lg = st.Log
			}
			return vk.Failf("%s: an unsafe request reached the handler with token %q which is not a live issued token (issued=%v)\nstorage log: %v", ctx, sentTok, issued[sentTok], lg)
		}
		if getFault {
			return vk.Failf("%s: the token store failed on lookup but the request reached the handler", ctx)
		}
		if sessSetFault {
			return vk.Failf("%s: the session that holds the single-use token could not be saved (its storage refused the write: the token stays usable) but the request reached the handler", ctx)
		}
		if delFault && c.SingleUse {
			return vk.Failf("%s: the token store failed to delete the single-use token (it stays usable) but the request reached the handler", ctx)
		}
		if c.Extractor != "cookie" && sentTok != cookieTok {
			return vk.Failf("%s: an unsafe request reached the handler although the presented token %q does not match the CSRF cookie %q", ctx, sentTok, cookieTok)
		}
		if !originOK(op) {
			return vk.Failf("%s: an unsafe request reached the handler although its origin is neither the same origin nor trusted", ctx)
		}
		if c.SingleUse {
			if !delFault {
				if c.Backend == "session" {
					// replaced by the new token below
				} else {
					delete(live, sentTok)
				}
				kill(sentTok)
				if st != nil && st.Has(sentTok) {
					return vk.Failf("%s: single-use token %q is still in the token store after use", ctx, sentTok)
				}
			}
			if !cookieSet || newCookie == "" || newCookie == sentTok || !issued[newCookie] {
				return vk.Failf("%s: after consuming a single-use token the response must carry a new server-generated token, got %q", ctx, newCookie)
			}
		} else if newCookie != sentTok {
			return vk.Failf("%s: the response cookie is %q, want the (extended) token %q", ctx, newCookie, sentTok)
		}
		if c.Backend == "session" {
			sessTok[cl.session] = newCookie
		} else {
			live[newCookie] = &tokrec{exp: vk.Now() + uint32(c.Idle)}
		}
		cl.cookie = newCookie
	}
	v.NonTrivial = nt
	if passedUnsafe > 0 {
		v.Classes = append(v.Classes, "unsafe-passed")
	}
	if len(c.FailGet)+len(c.FailDel) > 0 {
		v.Classes = append(v.Classes, "faults")
	}
	return v
}

var origins = []string{"", "", "null", "SCHEME://site.test", "http://site.test", "https://site.test", "https://trusted.test", "http://trusted.test", "https://a.wild.test",
	"https://wild.test", "https://evilwild.test", "https://a.wild.test.evil.test", "https://evil.test", "HTTPS://A.WILD.TEST", "http://plain.test:8080", "http://plain.test",
	"https://evil.test/x.wild.test", "https://evil.test/?q=.wild.test", "https://site.test.evil.test", "http://a.wild.test",
	"https://a.pad.test", "https://.evilpad.test", "https://evilpad.test",
	// a trusted or same host on a foreign port is a different origin
	"https://trusted.test:8443", "https://a.wild.test:8443", "SCHEME://site.test:8443", "http://plain.test:9090", "https://trusted.test:8080"}

var referers = []string{"", "", "SCHEME://site.test/page", "https://trusted.test/p", "https://trusted.test", "https://a.wild.test/x?y=1", "https://evil.test/",
	"https://evil.test/?r=https://trusted.test", "https://evil.test/x.wild.test", "https://x/?q=.wild.test", "https://evil.test/#.wild.test", "https://a.wild.test", "https://site.test.evil.test/site.test",
	"https://trusted.test:8443/p", "https://a.wild.test:8443/", "SCHEME://site.test:8443/page",
	// the same host under the other scheme is another origin
	"http://site.test/page", "https://site.test/page", "http://site.test", "http://trusted.test/p", "http://a.wild.test/"}

func genCase(t *rapid.T) Case {
	c := Case{Backend: rapid.SampledFrom([]string{"vk", "vk", "vk-retain", "memory", "session", "session"}).Draw(t, "backend"),
		Extractor: rapid.SampledFrom([]string{"header", "form", "query", "param", "cookie"}).Draw(t, "extractor"),
		Lookup:    rapid.SampledFrom([]string{"", "", "key", "stale"}).Draw(t, "lookup"),
		SingleUse: rapid.Bool().Draw(t, "single"), Idle: rapid.SampledFrom([]int{5, 30, 3600}).Draw(t, "idle")}
	if c.Backend == "session" {
		c.SessNoMW = rapid.Bool().Draw(t, "sessnomw")
	}
	c.Conn = rapid.IntRange(0, 2).Draw(t, "conn") == 0
	c.ProtoCaps = rapid.IntRange(0, 5).Draw(t, "protocaps") == 0
	c.OwnEH = rapid.IntRange(0, 2).Draw(t, "owneh") == 0
	if (c.Backend == "vk" || c.Backend == "vk-retain") && rapid.IntRange(0, 2).Draw(t, "faults") == 0 {
		c.FailGet = rapid.SliceOfN(rapid.IntRange(1, 15), 0, 2).Draw(t, "failget")
		c.FailDel = rapid.SliceOfN(rapid.IntRange(1, 4), 0, 1).Draw(t, "faildel")
	}
	n := rapid.IntRange(1, 14).Draw(t, "nops")
	for i := 0; i < n; i++ {
		switch k := rapid.IntRange(0, 13).Draw(t, "kind"); {
		case k == 0 && c.Backend != "session":
			c.Ops = append(c.Ops, Op{Kind: "adv", Dt: rapid.SampledFrom([]int{1, 4, 6, 31}).Draw(t, "dt")})
		case k == 1:
			c.Ops = append(c.Ops, Op{Kind: "logout", Client: rapid.IntRange(0, 1).Draw(t, "client"), Cookie: "own", Scheme: "http"})
		default:
			op := Op{Kind: "req", Client: rapid.IntRange(0, 1).Draw(t, "client"),
				Method: rapid.SampledFrom([]string{"GET", "GET", "HEAD", "OPTIONS", "TRACE", "POST", "POST", "POST", "POST", "PUT", "DELETE"}).Draw(t, "method"),
				Cookie: rapid.SampledFrom([]string{"own", "own", "own", "own", "none", "forged", "other", "dead"}).Draw(t, "cookie"),
				Token:  rapid.SampledFrom([]string{"same", "same", "same", "same", "none", "forged", "other", "dead", "own", "own"}).Draw(t, "token"),
				Pick:   rapid.IntRange(0, 5).Draw(t, "pick"), Scheme: rapid.SampledFrom([]string{"http", "https"}).Draw(t, "scheme")}
			op.FailConsume = rapid.IntRange(0, 3).Draw(t, "failconsume") == 0
			op.Origin = strings.ReplaceAll(rapid.SampledFrom(origins).Draw(t, "origin"), "SCHEME", op.Scheme)
			op.Referer = strings.ReplaceAll(rapid.SampledFrom(referers).Draw(t, "referer"), "SCHEME", op.Scheme)
			c.Ops = append(c.Ops, op)
		}
	}
	return c
}

var propCSRF = vk.Register(&vk.Prop[Case]{Property: property, Name: "history", Gen: genCase, Check: check, Quick: 25000, Thorough: 80000})

func TestHistory(t *testing.T) { propCSRF.Run(t) }
func FuzzHistory(f *testing.F) { propCSRF.Fuzz(f) }
