package vk

import (
	"bufio"
	"bytes"
	"crypto/tls"
	"fmt"
	"io"
	"net"
	"runtime/debug"
	"strings"
	"sync/atomic"
	"time"

	"github.com/gofiber/fiber/v3"
	"github.com/valyala/fasthttp"
	"github.com/valyala/fasthttp/fasthttputil"
)

// Do dispatches one request in process (no wire parsing). uri is a path (+ optional query).
func Do(app *fiber.App, method, uri string, hdr ...string) *fasthttp.RequestCtx {
	return DoAddr(app, nil, method, uri, nil, hdr...)
}

// setURI: a request target that starts with two slashes is a path on the wire ("GET //x HTTP/1.1"), but SetRequestURI
// would read it as a scheme-relative reference (host x): spell the absolute form instead.
func setURI(req *fasthttp.Request, uri string) {
	if strings.HasPrefix(uri, "//") {
		req.SetRequestURI("http://vk.local" + uri)
		return
	}
	req.SetRequestURI(uri)
}

// DoAddr is Do with a peer address and a body.
func DoAddr(app *fiber.App, remote net.Addr, method, uri string, body []byte, hdr ...string) *fasthttp.RequestCtx {
	var req fasthttp.Request
	req.Header.SetMethod(method)
	setURI(&req, uri)
	for i := 0; i+1 < len(hdr); i += 2 {
		req.Header.Add(hdr[i], hdr[i+1])
	}
	if body != nil {
		req.SetBody(body)
	}
	ctx := &fasthttp.RequestCtx{}
	if remote == nil {
		remote = &net.TCPAddr{IP: net.IPv4(10, 0, 0, 9), Port: 1234}
	}
	ctx.Init(&req, remote, nil)
	app.Handler()(ctx)
	return ctx
}

// DoHandler dispatches one request in process through a handler obtained earlier (a running server asks App.Handler()
// once: what Handler() does at start-up does not happen again between its requests).
func DoHandler(h fasthttp.RequestHandler, method, uri string, hdr ...string) *fasthttp.RequestCtx {
	var req fasthttp.Request
	req.Header.SetMethod(method)
	setURI(&req, uri)
	for i := 0; i+1 < len(hdr); i += 2 {
		req.Header.Add(hdr[i], hdr[i+1])
	}
	ctx := &fasthttp.RequestCtx{}
	ctx.Init(&req, &net.TCPAddr{IP: net.IPv4(10, 0, 0, 9), Port: 1234}, nil)
	h(ctx)
	return ctx
}

// tlsConn is an in-memory connection that fasthttp takes for a TLS connection (RequestCtx.IsTLS looks for the two methods)
type tlsConn struct{ *Conn }

func (tlsConn) Handshake() error { return nil }
func (tlsConn) ConnectionState() tls.ConnectionState {
	return tls.ConnectionState{HandshakeComplete: true, Version: tls.VersionTLS13}
}

// DoTLS is DoAddr for a request that arrived on a TLS connection.
func DoTLS(app *fiber.App, remote net.Addr, method, uri string, hdr ...string) *fasthttp.RequestCtx {
	var req fasthttp.Request
	req.Header.SetMethod(method)
	setURI(&req, uri)
	for i := 0; i+1 < len(hdr); i += 2 {
		req.Header.Add(hdr[i], hdr[i+1])
	}
	ctx := &fasthttp.RequestCtx{}
	ctx.Init2(tlsConn{&Conn{R: bytes.NewReader(nil), Remote: remote}}, nil, false)
	req.CopyTo(&ctx.Request)
	app.Handler()(ctx)
	return ctx
}

// Conn is an in-memory net.Conn: scripted input, captured output.
type Conn struct {
	R      *bytes.Reader
	W      bytes.Buffer
	Remote net.Addr
	closed atomic.Bool // set by Close (Ctx.End, a hijacker): nothing written afterwards reaches the peer
}

func (c *Conn) Read(b []byte) (int, error) {
	if c.closed.Load() {
		return 0, net.ErrClosed
	}
	return c.R.Read(b)
}

func (c *Conn) Write(b []byte) (int, error) {
	if c.closed.Load() {
		return 0, net.ErrClosed
	}
	return c.W.Write(b)
}
func (c *Conn) Close() error        { c.closed.Store(true); return nil }
func (c *Conn) LocalAddr() net.Addr { return &net.TCPAddr{IP: net.IPv4(127, 0, 0, 1), Port: 80} }
func (c *Conn) RemoteAddr() net.Addr {
	if c.Remote != nil {
		return c.Remote
	}
	return &net.TCPAddr{IP: net.IPv4(10, 0, 0, 9), Port: 1234}
}
func (c *Conn) SetDeadline(time.Time) error      { return nil }
func (c *Conn) SetReadDeadline(time.Time) error  { return nil }
func (c *Conn) SetWriteDeadline(time.Time) error { return nil }

// Wire serves the raw bytes as one connection (pipelined requests share ctx and buffers) and returns everything
// the server wrote. A panic on the serving goroutine is returned as error.
func Wire(app *fiber.App, raw []byte) (out []byte, err error) {
	return WireAddr(app, raw, nil)
}

func WireAddr(app *fiber.App, raw []byte, remote net.Addr) (out []byte, err error) {
	app.Handler()
	c := &Conn{R: bytes.NewReader(raw), Remote: remote}
	defer func() {
		if r := recover(); r != nil {
			err = fmt.Errorf("panic while serving: %v\n%s", r, debug.Stack())
			out = c.W.Bytes()
		}
	}()
	e := app.Server().ServeConn(c)
	_ = e
	return c.W.Bytes(), nil
}

// WireTimeout is Wire on a separate goroutine with a hang limit.
func WireTimeout(app *fiber.App, raw []byte, limit time.Duration) (out []byte, err error, hung bool) {
	type res struct {
		out []byte
		err error
	}
	ch := make(chan res, 1)
	go func() {
		o, e := Wire(app, raw)
		ch <- res{o, e}
	}()
	select {
	case r := <-ch:
		return r.out, r.err, false
	case <-time.After(limit):
		return nil, nil, true
	}
}

// Req builds a well-formed HTTP/1.1 request for the wire driver.
func Req(method, target string, hdr [][2]string, body []byte) []byte {
	var b bytes.Buffer
	fmt.Fprintf(&b, "%s %s HTTP/1.1\r\n", method, target)
	hasHost := false
	for _, h := range hdr {
		if eqFold(h[0], "host") {
			hasHost = true
		}
	}
	if !hasHost {
		b.WriteString("Host: example.com\r\n")
	}
	for _, h := range hdr {
		fmt.Fprintf(&b, "%s: %s\r\n", h[0], h[1])
	}
	if body != nil {
		fmt.Fprintf(&b, "Content-Length: %d\r\n", len(body))
	}
	b.WriteString("\r\n")
	b.Write(body)
	return b.Bytes()
}

func eqFold(a, b string) bool {
	if len(a) != len(b) {
		return false
	}
	for i := 0; i < len(a); i++ {
		x, y := a[i], b[i]
		if 'A' <= x && x <= 'Z' {
			x += 32
		}
		if 'A' <= y && y <= 'Z' {
			y += 32
		}
		if x != y {
			return false
		}
	}
	return true
}

var _ = io.EOF

// KeepAlive serves app on one persistent in-memory connection: every request of a history is parsed into the same
// server-side RequestCtx (as on a real keep-alive connection shared by a proxy), so strings that alias request buffers
// and are kept across requests change under their owner's feet.
type KeepAlive struct {
	c    net.Conn
	br   *bufio.Reader
	done chan struct{}
}

func NewKeepAlive(app *fiber.App) *KeepAlive {
	app.Handler()
	pc := fasthttputil.NewPipeConns()
	k := &KeepAlive{c: pc.Conn1(), done: make(chan struct{})}
	k.br = bufio.NewReader(k.c)
	srv := pc.Conn2()
	go func() {
		defer close(k.done)
		_ = app.Server().ServeConn(srv)
	}()
	return k
}

// Do sends one request (built by Req) and reads one response.
func (k *KeepAlive) Do(raw []byte, head bool) (*fasthttp.Response, error) {
	if _, err := k.c.Write(raw); err != nil {
		return nil, err
	}
	resp := &fasthttp.Response{}
	resp.SkipBody = head
	_ = k.c.SetReadDeadline(time.Now().Add(20 * time.Second))
	if err := resp.Read(k.br); err != nil {
		return nil, err
	}
	return resp, nil
}

func (k *KeepAlive) Close() {
	_ = k.c.Close()
	select {
	case <-k.done:
	case <-time.After(5 * time.Second):
	}
}

// Reuse dispatches requests in process like Do, but every request is served by the same fasthttp.RequestCtx - as the
// requests of one keep-alive connection are: request and response buffers are recycled, so strings that alias them and
// were kept (as map keys, in storages) change under their owner's feet. The returned ctx is valid until the next call.
type Reuse struct{ ctx *fasthttp.RequestCtx }

func (r *Reuse) Do(app *fiber.App, method, uri string, hdr ...string) *fasthttp.RequestCtx {
	return r.DoBody(app, method, uri, nil, hdr...)
}

func (r *Reuse) DoBody(app *fiber.App, method, uri string, body []byte, hdr ...string) *fasthttp.RequestCtx {
	if r.ctx == nil {
		r.ctx = &fasthttp.RequestCtx{}
	}
	var req fasthttp.Request
	req.Header.SetMethod(method)
	setURI(&req, uri)
	for i := 0; i+1 < len(hdr); i += 2 {
		req.Header.Add(hdr[i], hdr[i+1])
	}
	if body != nil {
		req.SetBody(body)
	}
	r.ctx.Response.Reset()  // keeps the body buffer, as the server does between two requests of a connection
	r.ctx.ResetUserValues() // ... and it drops the user values (Locals) of the previous request
	r.ctx.Init(&req, &net.TCPAddr{IP: net.IPv4(10, 0, 0, 9), Port: 1234}, nil)
	app.Handler()(r.ctx)
	return r.ctx
}
