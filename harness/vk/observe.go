package vk

import (
	"fmt"
	"io"
	"net"
	"sort"
	"strings"

	"github.com/gofiber/fiber/v3"
)

// Views is a capturing template engine: it renders the bind map (which includes view bindings and, with
// PassLocalsToViews, locals) as sorted key=value pairs.
type Views struct{}

func (Views) Load() error { return nil }
func (Views) Render(w io.Writer, _ string, bind any, _ ...string) error {
	m, _ := bind.(fiber.Map)
	keys := make([]string, 0, len(m))
	for k := range m {
		keys = append(keys, k)
	}
	sort.Strings(keys)
	for _, k := range keys {
		fmt.Fprintf(w, "%s=%v;", k, m[k])
	}
	return nil
}

// BindTarget has a tag for every binding source.
type BindTarget struct {
	A string   `query:"a" form:"a" header:"X-A" cookie:"a" uri:"p1" json:"a" xml:"a"`
	B []string `query:"b" form:"b" header:"X-B"`
	N int      `query:"n" form:"n" header:"X-N" cookie:"n" json:"n" xml:"n"`
}

func sortedMapSS(m map[string]string) string {
	keys := make([]string, 0, len(m))
	for k := range m {
		keys = append(keys, k)
	}
	sort.Strings(keys)
	var sb strings.Builder
	for _, k := range keys {
		fmt.Fprintf(&sb, "%q:%q,", k, m[k])
	}
	return sb.String()
}

func sortedMapSL(m map[string][]string) string {
	keys := make([]string, 0, len(m))
	for k := range m {
		keys = append(keys, k)
	}
	sort.Strings(keys)
	var sb strings.Builder
	for _, k := range keys {
		fmt.Fprintf(&sb, "%q:%q,", k, m[k])
	}
	return sb.String()
}

// Observe calls (nearly) every request accessor of the context and returns a canonical, ordered list of
// name=value observations. localsKeys are the Locals keys to look at. It never writes to the response except through
// what accessors do implicitly (Format/Accepts set nothing).
func Observe(c fiber.Ctx, localsKeys ...string) []string {
	var o []string
	add := func(name string, v any) { o = append(o, fmt.Sprintf("%s=%v", name, v)) }
	addq := func(name, v string) { o = append(o, fmt.Sprintf("%s=%q", name, v)) }
	func() {
		defer func() {
			if r := recover(); r != nil {
				add("PANIC", r)
				panic(r)
			}
		}()
		if rt := c.Route(); rt != nil {
			addq("route.path", rt.Path)
			for _, n := range rt.Params {
				addq("param."+n, c.Params(n))
			}
		}
		addq("path", c.Path())
		addq("originalurl", c.OriginalURL())
		addq("protocol", c.Protocol())
		addq("method", c.Method())
		addq("host", c.Host())
		addq("hostname", c.Hostname())
		if _, tcp := c.RequestCtx().RemoteAddr().(*net.TCPAddr); tcp {
			addq("port", c.Port()) // Port() panics for non-TCP peers (in-memory / unix listeners): see finding C07-f
		}
		addq("ip", c.IP())
		add("ips", fmt.Sprintf("%q", c.IPs()))
		addq("scheme", c.Scheme())
		add("secure", c.Secure())
		addq("baseurl", c.BaseURL())
		add("subdomains", fmt.Sprintf("%q", c.Subdomains()))
		addq("query.a", c.Query("a"))
		addq("queries", sortedMapSS(c.Queries()))
		addq("get.X-A", c.Get("X-A"))
		addq("get.content-type", c.Get("Content-Type"))
		addq("reqheaders", sortedMapSL(c.GetReqHeaders()))
		addq("cookie.a", c.Cookies("a"))
		addq("cookie.sid", c.Cookies("sid"))
		addq("body", string(c.Body()))
		addq("bodyraw", string(c.BodyRaw()))
		addq("formvalue.a", c.FormValue("a"))
		addq("accepts", c.Accepts("text/html", "application/json", "text/plain"))
		addq("acceptscharsets", c.AcceptsCharsets("utf-8", "iso-8859-1"))
		addq("acceptsencodings", c.AcceptsEncodings("gzip", "br", "identity"))
		addq("acceptslanguages", c.AcceptsLanguages("en", "de", "fr"))
		add("fresh", c.Fresh())
		add("stale", c.Stale())
		add("xhr", c.XHR())
		add("is.json", c.Is("json"))
		add("is.html", c.Is("html"))
		add("islocal", c.IsFromLocal())
		add("proxytrusted", c.IsProxyTrusted())
		if rg, err := c.Range(1000); err != nil {
			addq("range.err", err.Error())
		} else {
			add("range", fmt.Sprintf("%s %v", rg.Type, rg.Ranges))
		}
		for _, k := range localsKeys {
			add("locals."+k, c.Locals(k))
		}
		var msgs []string
		for _, m := range c.Redirect().Messages() {
			msgs = append(msgs, fmt.Sprintf("%q=%q@%d", m.Key, m.Value, m.Level))
		}
		sort.Strings(msgs)
		add("flash", msgs)
		var olds []string
		for _, in := range c.Redirect().OldInputs() {
			olds = append(olds, fmt.Sprintf("%q=%q", in.Key, in.Value))
		}
		sort.Strings(olds)
		add("oldinput", olds)
		var bq, bh, bc, bu, bf, bb BindTarget
		add("bind.query", fmt.Sprintf("%+v err=%v", bq, errStr(c.Bind().Query(&bq))))
		add("bind.query.v", fmt.Sprintf("%+v", bq))
		_ = c.Bind().Header(&bh)
		add("bind.header", fmt.Sprintf("%+v", bh))
		_ = c.Bind().Cookie(&bc)
		add("bind.cookie", fmt.Sprintf("%+v", bc))
		_ = c.Bind().URI(&bu)
		add("bind.uri", fmt.Sprintf("%+v", bu))
		ct := strings.ToLower(c.Get("Content-Type"))
		if strings.HasPrefix(ct, "application/x-www-form-urlencoded") || strings.HasPrefix(ct, "multipart/form-data") {
			add("bind.form", fmt.Sprintf("err=%v %+v", errStr(c.Bind().Form(&bf)), bf))
		}
		if len(c.Body()) > 0 {
			add("bind.body", fmt.Sprintf("err=%v %+v", errStr(c.Bind().Body(&bb)), bb))
		}
		bm := map[string]string{}
		_ = c.Bind().Query(bm)
		addq("bind.query.map", sortedMapSS(bm))
		addq("respheaders", sortedMapSL(c.GetRespHeaders()))
		add("resp.status", c.Response().StatusCode())
	}()
	return o
}

func errStr(err error) string {
	if err == nil {
		return "<nil>"
	}
	return err.Error()
}
