package vk

import (
	"fmt"
	"sort"
	"strings"
	"sync"
	"time"
)

// Storage is a deterministic fiber.Storage: a map with TTLs evaluated on the virtual clock, returning copies,
// recording an operation log, with an optional fault plan (n-th Get/Set/Delete fails) and optional yield points for
// the cooperative scheduler.
type Storage struct {
	mu    sync.Mutex
	m     map[string]entry
	Sched *Sched
	// FailGet / FailSet / FailDelete: 1-based indices of the calls that return an injected error
	FailGet, FailSet, FailDelete map[int]bool
	nGet, nSet, nDel             int
	// GarbleGet: 1-based indices of the Get calls that hand out a damaged (cut-off) copy of the record, without an
	// error - a short read, a foreign value under the key; Garbled counts those that met a record
	GarbleGet map[int]bool
	Garbled   int
	Log       []string
	NoTTL     bool // ignore TTLs (a backend that never expires)
	// Retain: keep the value slice passed to Set and hand the same slice out from Get, as gofiber's in-process memory
	// driver does (a caller that re-uses the buffer after Set, or writes into what Get returned, corrupts the record)
	Retain bool
}

type entry struct {
	v   []byte
	exp uint32 // 0 = never
}

func NewStorage() *Storage { return &Storage{m: map[string]entry{}} }

type InjectedFault struct {
	Op string
	N  int
}

func (f InjectedFault) Error() string { return fmt.Sprintf("injected %s fault #%d", f.Op, f.N) }

func (s *Storage) log(format string, a ...any) {
	if len(s.Log) < 4096 {
		s.Log = append(s.Log, fmt.Sprintf(format, a...))
	}
}

func (s *Storage) Get(key string) ([]byte, error) {
	s.Sched.Yield("get<" + key)
	s.mu.Lock()
	s.nGet++
	n := s.nGet
	fail := s.FailGet[n]
	var out []byte
	if e, ok := s.m[key]; ok && !fail {
		if e.exp != 0 && !s.NoTTL && Now() >= e.exp {
			delete(s.m, key)
		} else {
			out = e.v
			if !s.Retain {
				out = append([]byte(nil), e.v...)
			}
			if s.GarbleGet[n] && len(e.v) > 0 {
				out = append([]byte{}, e.v[:len(e.v)/2]...)
				s.Garbled++
			}
		}
	}
	s.log("get %s -> %d bytes fail=%v", key, len(out), fail)
	s.mu.Unlock()
	s.Sched.Yield("get>" + key)
	if fail {
		return nil, InjectedFault{"Get", n}
	}
	return out, nil
}

func (s *Storage) Set(key string, val []byte, exp time.Duration) error {
	s.Sched.Yield("set<" + key)
	s.mu.Lock()
	s.nSet++
	n := s.nSet
	fail := s.FailSet[n]
	if !fail && key != "" && len(val) > 0 {
		e := entry{v: val}
		if !s.Retain {
			e.v = append([]byte(nil), val...)
		}
		if exp > 0 {
			secs := uint32(exp / time.Second)
			if secs == 0 {
				secs = 1
			}
			e.exp = Now() + secs
		}
		// fiber hands out strings that alias request buffers; a map-based storage has to own its keys - unless it
		// models an in-process driver that keeps what it is given (Retain), as gofiber's memory storage does: then it
		// is the middleware's business to pass a key that stays what it is
		if s.Retain {
			delete(s.m, key) // (assigning to an existing key would keep the old key string)
			s.m[key] = e
		} else {
			s.m[strings.Clone(key)] = e
		}
	}
	s.log("set %s %d bytes ttl=%v fail=%v", key, len(val), exp, fail)
	s.mu.Unlock()
	s.Sched.Yield("set>" + key)
	if fail {
		return InjectedFault{"Set", n}
	}
	return nil
}

func (s *Storage) Delete(key string) error {
	s.Sched.Yield("del<" + key)
	s.mu.Lock()
	s.nDel++
	n := s.nDel
	fail := s.FailDelete[n]
	if !fail {
		delete(s.m, key)
	}
	s.log("delete %s fail=%v", key, fail)
	s.mu.Unlock()
	s.Sched.Yield("del>" + key)
	if fail {
		return InjectedFault{"Delete", n}
	}
	return nil
}

// FailNextSet makes the next Set call return an injected error (nothing is stored)
func (s *Storage) FailNextSet() {
	s.mu.Lock()
	if s.FailSet == nil {
		s.FailSet = map[int]bool{}
	}
	s.FailSet[s.nSet+1] = true
	s.mu.Unlock()
}

// FailNextGet makes the next Get call return an injected error
func (s *Storage) FailNextGet() {
	s.mu.Lock()
	if s.FailGet == nil {
		s.FailGet = map[int]bool{}
	}
	s.FailGet[s.nGet+1] = true
	s.mu.Unlock()
}

// FailNextDelete makes the next Delete call return an injected error (and leave the record in place)
func (s *Storage) FailNextDelete() {
	s.mu.Lock()
	if s.FailDelete == nil {
		s.FailDelete = map[int]bool{}
	}
	s.FailDelete[s.nDel+1] = true
	s.mu.Unlock()
}

func (s *Storage) Reset() error {
	s.mu.Lock()
	s.m = map[string]entry{}
	s.mu.Unlock()
	return nil
}

func (s *Storage) Close() error { return nil }

// Has reports whether a live entry exists (harness-side, no yield, no log).
func (s *Storage) Has(key string) bool {
	s.mu.Lock()
	defer s.mu.Unlock()
	e, ok := s.m[key]
	return ok && (e.exp == 0 || s.NoTTL || Now() < e.exp)
}

// Peek returns a copy of the raw value (harness-side).
func (s *Storage) Peek(key string) []byte {
	s.mu.Lock()
	defer s.mu.Unlock()
	return append([]byte(nil), s.m[key].v...)
}

// Keys returns the live keys, sorted.
func (s *Storage) Keys() []string {
	s.mu.Lock()
	defer s.mu.Unlock()
	var ks []string
	for k, e := range s.m {
		if e.exp == 0 || s.NoTTL || Now() < e.exp {
			ks = append(ks, k)
		}
	}
	sort.Strings(ks)
	return ks
}

// Bytes sums len(value) over the keys selected by f (all keys when f == nil), including expired-but-unpurged ones.
func (s *Storage) Bytes(f func(key string) bool) int {
	s.mu.Lock()
	defer s.mu.Unlock()
	n := 0
	for k, e := range s.m {
		if f == nil || f(k) {
			n += len(e.v)
		}
	}
	return n
}

// Counts returns the number of Get / Set / Delete calls so far.
func (s *Storage) Counts() (int, int, int) {
	s.mu.Lock()
	defer s.mu.Unlock()
	return s.nGet, s.nSet, s.nDel
}
