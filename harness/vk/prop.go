// Package vk is the shared kit of the verification harness: property runner (generate -> journal -> check ->
// classify known findings -> record -> save replay), recorder for evidence, wire drivers, strict response parser,
// virtual clock, fake storage and cooperative scheduler.
package vk

import (
	"encoding/json"
	"flag"
	"fmt"
	"hash/fnv"
	"os"
	"path/filepath"
	"runtime/debug"
	"sort"
	"strconv"
	"strings"
	"sync"
	"testing"

	"pgregory.net/rapid"
)

// Verdict is what an oracle returns for one case.
type Verdict struct {
	Fail       string   // non-empty: the property is violated on this case (human readable reason)
	NonTrivial bool     // case is non-trivial by the property's stated rule
	Classes    []string // histogram labels (generator health)
	Skip       bool     // case outside the domain (counted, not evaluated)
	Excluded   string   // set by oracle when it avoided a known-finding class by construction
}

func Failf(format string, a ...any) Verdict { return Verdict{Fail: fmt.Sprintf(format, a...)} }

// Prop is one generated check: a generator of JSON-serialisable cases and an oracle over a case.
type Prop[C any] struct {
	Property string // C01 ...
	Name     string // unique within the property package
	Gen      func(t *rapid.T) C
	Check    func(c C) Verdict
	// Classify maps a failing case to the id of an *open* known finding (narrow classifier), or "".
	Classify func(c C, fail string) string
	// Budgets (number of generated cases) per tier, per shard.
	Quick, Thorough int
}

type replayFile struct {
	Property string          `json:"property"`
	Test     string          `json:"test"`
	Failure  string          `json:"failure,omitempty"`
	Case     json.RawMessage `json:"case"`
}

type runner interface {
	name() string
	replay(raw json.RawMessage) (Verdict, string, error)
}

var (
	regMu    sync.Mutex
	registry = map[string]runner{}
)

func (p *Prop[C]) name() string { return p.Name }

func (p *Prop[C]) replay(raw json.RawMessage) (Verdict, string, error) {
	var c C
	if err := json.Unmarshal(raw, &c); err != nil {
		return Verdict{}, "", err
	}
	v := p.safeCheck(c)
	known := ""
	if v.Fail != "" && p.Classify != nil {
		known = p.Classify(c, v.Fail)
	}
	return v, known, nil
}

// Register makes the property available to replay / corpus / witness tests.
func Register[C any](p *Prop[C]) *Prop[C] {
	regMu.Lock()
	defer regMu.Unlock()
	if _, dup := registry[p.Name]; dup {
		panic("duplicate prop " + p.Name)
	}
	registry[p.Name] = p
	return p
}

func (p *Prop[C]) safeCheck(c C) (v Verdict) {
	defer func() {
		if r := recover(); r != nil {
			v = Verdict{Fail: fmt.Sprintf("panic in check: %v\n%s", r, debug.Stack())}
		}
	}()
	return p.Check(c)
}

func digest(b []byte) uint64 {
	h := fnv.New64a()
	_, _ = h.Write(b)
	return h.Sum64()
}

// Budget returns the number of cases for the current tier.
func (p *Prop[C]) Budget() int {
	n := p.Quick
	if Tier() == "thorough" {
		n = p.Thorough
	}
	if s := os.Getenv("VK_SCALE"); s != "" {
		if f, err := strconv.ParseFloat(s, 64); err == nil && f > 0 {
			n = int(float64(n) * f)
		}
	}
	if n < 1 {
		n = 1
	}
	return n
}

// Run drives the property with rapid.
func (p *Prop[C]) Run(t *testing.T) {
	t.Helper()
	_ = flag.Set("rapid.checks", strconv.Itoa(p.Budget()))
	_ = flag.Set("rapid.nofailfile", "true")
	open := OpenFindings(p.Property)
	rapid.Check(t, func(rt *rapid.T) {
		c := p.Gen(rt)
		raw, err := json.Marshal(c)
		if err != nil {
			rt.Fatalf("case not serialisable: %v", err)
		}
		journal(p.Property, p.Name, raw)
		v := p.safeCheck(c)
		unjournal()
		if v.Skip {
			Rec.skip(p.Name)
			return
		}
		if v.Excluded != "" {
			Rec.excluded(v.Excluded)
		}
		if v.Fail != "" {
			if p.Classify != nil {
				if id := p.Classify(c, v.Fail); id != "" && open[id] {
					Rec.excluded(id)
					Rec.caseDone(p.Name, digest(raw), false, append(v.Classes, "known:"+id), raw)
					return
				}
			}
			path := saveReplay(p.Property, p.Name, raw, v.Fail)
			Rec.violation(p.Name, path)
			rt.Fatalf("VIOLATION-CANDIDATE property=%s test=%s replay=%s\n%s", p.Property, p.Name, path, v.Fail)
		}
		Rec.caseDone(p.Name, digest(raw), v.NonTrivial, v.Classes, raw)
	})
}

// Fuzz runs the same property under the native coverage-guided fuzzer (bytes become rapid's bit stream).
func (p *Prop[C]) Fuzz(f *testing.F) {
	open := OpenFindings(p.Property)
	f.Fuzz(rapid.MakeFuzz(func(rt *rapid.T) {
		c := p.Gen(rt)
		raw, err := json.Marshal(c)
		if err != nil {
			rt.Fatalf("case not serialisable: %v", err)
		}
		v := p.safeCheck(c)
		if v.Skip || v.Fail == "" {
			return
		}
		if p.Classify != nil {
			if id := p.Classify(c, v.Fail); id != "" && open[id] {
				return
			}
		}
		path := saveReplay(p.Property, p.Name, raw, v.Fail)
		rt.Fatalf("VIOLATION-CANDIDATE property=%s test=%s replay=%s\n%s", p.Property, p.Name, path, v.Fail)
	}))
}

// ---------------------------------------------------------------------------------------------------------

func Tier() string {
	if s := os.Getenv("VK_TIER"); s != "" {
		return s
	}
	return "quick"
}

func outDir() string {
	d := os.Getenv("VK_OUT")
	if d == "" {
		d = filepath.Join(os.TempDir(), "vk-out")
	}
	_ = os.MkdirAll(d, 0o755)
	return d
}

func shard() string {
	s := os.Getenv("VK_SHARD")
	if s == "" {
		s = "0"
	}
	return s
}

var journalPath string

func journal(prop, test string, raw []byte) {
	if os.Getenv("VK_JOURNAL") == "" {
		return
	}
	if journalPath == "" {
		journalPath = filepath.Join(outDir(), "current."+shard()+".json")
	}
	b, _ := json.Marshal(replayFile{Property: prop, Test: test, Case: raw})
	_ = os.WriteFile(journalPath, b, 0o644)
}

// Journal / Unjournal are for tests that drive a stress themselves instead of through Prop.Run: while the stress runs, a
// case is on record, so that a worker death in the middle of it can be attributed (bin/check) instead of being
// "inconclusive".
func Journal(prop, test string, c any) {
	raw, _ := json.Marshal(c)
	journal(prop, test, raw)
}

func Unjournal() { unjournal() }

func unjournal() {
	if journalPath != "" {
		_ = os.Remove(journalPath)
	}
}

func saveReplay(prop, test string, raw []byte, fail string) string {
	return saveReplayAs(prop, test, "s"+shard(), raw, fail)
}

func saveReplayAs(prop, test, suffix string, raw []byte, fail string) string {
	dir := os.Getenv("VK_REPLAY_DIR")
	if dir == "" {
		dir = filepath.Join(outDir(), "replays")
	}
	_ = os.MkdirAll(dir, 0o755)
	path := filepath.Join(dir, fmt.Sprintf("%s.%s.%s.json", prop, test, suffix))
	if len(fail) > 4000 {
		fail = fail[:4000] + "…"
	}
	b, _ := json.MarshalIndent(replayFile{Property: prop, Test: test, Failure: fail, Case: raw}, "", " ")
	_ = os.WriteFile(path, b, 0o644)
	return path
}

// ReplayFile runs one saved case through its oracle, bypassing rapid. Returns (verdict, known finding id).
func ReplayFile(path string) (Verdict, string, error) {
	b, err := os.ReadFile(path)
	if err != nil {
		return Verdict{}, "", err
	}
	var rf replayFile
	if err := json.Unmarshal(b, &rf); err != nil {
		return Verdict{}, "", err
	}
	regMu.Lock()
	r := registry[rf.Test]
	regMu.Unlock()
	if r == nil {
		return Verdict{}, "", fmt.Errorf("no property %q registered in this package", rf.Test)
	}
	return r.replay(rf.Case)
}

// TestReplay implements `bin/check <id> --replay <file>`: env VK_REPLAY names the file.
func TestReplay(t *testing.T) {
	path := os.Getenv("VK_REPLAY")
	if path == "" {
		t.Skip("VK_REPLAY not set")
	}
	v, known, err := ReplayFile(path)
	if err != nil {
		t.Fatalf("replay %s: %v", path, err)
	}
	if v.Fail != "" {
		if known != "" && OpenFindings("")[known] {
			fmt.Printf("REPLAY-KNOWN %s %s\n", known, path)
			return
		}
		fmt.Printf("REPLAY-FAIL %s\n", path)
		t.Fatalf("replay %s still fails:\n%s", path, v.Fail)
	}
	fmt.Printf("REPLAY-PASS %s\n", path)
}

// TestCorpus runs every committed regression input of the property (corpus/<id>/*.json). A corpus case that fails is
// a violation (these are fixed defects and earlier shrunk failures).
func TestCorpus(t *testing.T, property string) {
	ShardZeroOnly(t)
	dir := filepath.Join(verifRoot(), "corpus", property)
	files, _ := filepath.Glob(filepath.Join(dir, "*.json"))
	sort.Strings(files)
	for _, f := range files {
		v, known, err := ReplayFile(f)
		if err != nil {
			t.Errorf("corpus %s: %v", f, err)
			continue
		}
		Rec.corpus()
		if v.Fail != "" {
			if known != "" && OpenFindings(property)[known] {
				continue
			}
			Rec.violation("corpus", f)
			t.Errorf("VIOLATION-CANDIDATE property=%s test=corpus replay=%s\n%s", property, f, v.Fail)
		}
	}
}

// TestWitnesses runs the recorded minimal input of every *open* known finding of the property; if it still fails
// (and is still recognised by its classifier) a KNOWN-FINDING line is printed. Never fails the test.
func TestWitnesses(t *testing.T, property string) {
	ShardZeroOnly(t)
	for _, kf := range LoadFindings() {
		if kf.Property != property || kf.Status != "open" {
			continue
		}
		if kf.Witness == "" {
			fmt.Printf("KNOWN-FINDING: property=%s %s [%s]\n", property, kf.WhatFails, kf.ID)
			continue
		}
		path := filepath.Join(verifRoot(), kf.Witness)
		v, known, err := ReplayFile(path)
		if err != nil {
			t.Errorf("witness %s: %v", path, err)
			continue
		}
		if v.Fail != "" && known == kf.ID {
			fmt.Printf("KNOWN-FINDING: property=%s %s [%s witness=%s]\n", property, kf.WhatFails, kf.ID, kf.Witness)
			Rec.known(kf.ID)
		} else if v.Fail != "" {
			// the witness fails but is no longer recognised by its own classifier: report, do not hide
			Rec.violation("witness", path)
			t.Errorf("VIOLATION-CANDIDATE property=%s test=witness replay=%s\nwitness of %s fails but classifier says %q:\n%s",
				property, path, kf.ID, known, v.Fail)
		}
	}
}

func verifRoot() string {
	if d := os.Getenv("VK_ROOT"); d != "" {
		return d
	}
	// harness/<id> -> /verif
	wd, _ := os.Getwd()
	for d := wd; d != "/" && d != "."; d = filepath.Dir(d) {
		if _, err := os.Stat(filepath.Join(d, "known_findings.json")); err == nil {
			return d
		}
	}
	return "/verif"
}

// ---------------------------------------------------------------------------------------------------------

type Finding struct {
	ID        string `json:"id"`
	Property  string `json:"property"`
	Status    string `json:"status"` // open | fixed
	Commit    string `json:"commit,omitempty"`
	Signature string `json:"signature,omitempty"`
	WhatFails string `json:"what_fails"`
	Witness   string `json:"witness,omitempty"`
}

var (
	findingsOnce sync.Once
	findings     []Finding
)

func LoadFindings() []Finding {
	findingsOnce.Do(func() {
		b, err := os.ReadFile(filepath.Join(verifRoot(), "known_findings.json"))
		if err != nil {
			return
		}
		var doc struct {
			Findings []Finding `json:"findings"`
		}
		if err := json.Unmarshal(b, &doc); err != nil {
			panic("known_findings.json: " + err.Error())
		}
		findings = doc.Findings
	})
	return findings
}

// OpenFindings returns the ids of open findings (of one property, or all when property == "").
func OpenFindings(property string) map[string]bool {
	m := map[string]bool{}
	for _, f := range LoadFindings() {
		if f.Status == "open" && (property == "" || f.Property == property) {
			m[f.ID] = true
		}
	}
	return m
}

// Main is the TestMain body of every property package.
func Main(m *testing.M, property string) {
	Rec.property = property
	code := m.Run()
	Rec.flush()
	os.Exit(code)
}

func trimLong(s string, n int) string {
	if len(s) > n {
		return s[:n] + "…"
	}
	return s
}

var _ = strings.TrimSpace

// SaveReplay lets non-rapid engines (exhaustive enumerations, schedulers) save a failing case of a registered prop.
func SaveReplay[C any](p *Prop[C], c C, fail string) string {
	raw, _ := json.Marshal(c)
	regMu.Lock()
	replaySeq++
	n := replaySeq
	regMu.Unlock()
	return saveReplayAs(p.Property, p.Name, fmt.Sprintf("s%s.n%d", shard(), n), raw, fail)
}

var replaySeq int

// ShardZeroOnly skips deterministic (seed-independent) tests in all shards but the first.
func ShardZeroOnly(t *testing.T) {
	if s := shard(); s != "0" && s != "" {
		t.Skip("deterministic test runs in shard 0 only")
	}
}

// Seed is VERIF_SEED as passed by the driver (for engines that do not use rapid).
func Seed() uint64 {
	n, _ := strconv.ParseUint(os.Getenv("VK_SEED"), 10, 64)
	s, _ := strconv.ParseUint(shard(), 10, 64)
	return n*1000003 + s
}
