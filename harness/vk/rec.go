package vk

import (
	"encoding/binary"
	"encoding/json"
	"os"
	"path/filepath"
	"sync"
	"time"
)

// Recorder collects the measured coverage of one test process: evaluations, distinct non-trivial digests, class
// histograms, samples, excluded-known counters. It is flushed by Main to $VK_OUT/stats.<shard>.json (+ .digests).
type recorder struct {
	mu         sync.Mutex
	property   string
	start      time.Time
	evals      map[string]int
	nontriv    map[string]int
	skips      map[string]int
	classes    map[string]int
	excl       map[string]int
	knownSeen  map[string]int
	digests    map[uint64]struct{}
	samples    map[string][]json.RawMessage
	violations []map[string]string
	corpusN    int
	extra      map[string]any
}

const maxDigests = 4 << 20

var Rec = &recorder{
	start: time.Now(), evals: map[string]int{}, nontriv: map[string]int{}, skips: map[string]int{},
	classes: map[string]int{}, excl: map[string]int{}, knownSeen: map[string]int{}, digests: map[uint64]struct{}{},
	samples: map[string][]json.RawMessage{}, extra: map[string]any{},
}

func (r *recorder) caseDone(test string, d uint64, nontrivial bool, classes []string, raw []byte) {
	r.mu.Lock()
	defer r.mu.Unlock()
	r.evals[test]++
	n := r.evals[test]
	for _, c := range classes {
		r.classes[test+"/"+c]++
	}
	if nontrivial {
		r.nontriv[test]++
		if len(r.digests) < maxDigests {
			r.digests[d] = struct{}{}
		}
		// samples: the first two non-trivial cases and then a sparse deterministic reservoir (every 2^k-th)
		k := r.nontriv[test]
		if (k <= 2 || (k&(k-1)) == 0) && len(r.samples[test]) < 6 && len(raw) < 6000 {
			r.samples[test] = append(r.samples[test], append(json.RawMessage(nil), raw...))
		}
	}
	_ = n
}

// Count lets non-rapid engines (exhaustive enumerations, schedulers) record a case directly.
func (r *recorder) Count(test string, d uint64, nontrivial bool, classes []string, sample func() any) {
	var raw []byte
	r.mu.Lock()
	k := r.nontriv[test] + 1
	want := nontrivial && (k <= 2 || (k&(k-1)) == 0) && len(r.samples[test]) < 6
	r.mu.Unlock()
	if want && sample != nil {
		raw, _ = json.Marshal(sample())
	}
	r.caseDone(test, d, nontrivial, classes, raw)
}

func (r *recorder) skip(test string)   { r.mu.Lock(); r.skips[test]++; r.mu.Unlock() }
func (r *recorder) excluded(id string) { r.mu.Lock(); r.excl[id]++; r.mu.Unlock() }
func (r *recorder) known(id string)    { r.mu.Lock(); r.knownSeen[id]++; r.mu.Unlock() }
func (r *recorder) corpus()            { r.mu.Lock(); r.corpusN++; r.mu.Unlock() }

// Excluded counts a case that was avoided by construction / classified as an open known finding.
func (r *recorder) Excluded(id string) { r.excluded(id) }

// Class adds to a histogram outside of a case verdict.
func (r *recorder) Class(test, c string) { r.mu.Lock(); r.classes[test+"/"+c]++; r.mu.Unlock() }

// Extra stores an additional measured key for the evidence file (e.g. exhaustive space size).
func (r *recorder) Extra(k string, v any) { r.mu.Lock(); r.extra[k] = v; r.mu.Unlock() }

func (r *recorder) violation(test, path string) {
	r.mu.Lock()
	r.violations = append(r.violations, map[string]string{"test": test, "replay": path})
	r.mu.Unlock()
}

// Violation records a violation found by a non-rapid engine.
func (r *recorder) Violation(test, path string) { r.violation(test, path) }

func (r *recorder) flush() {
	if os.Getenv("VK_OUT") == "" {
		return
	}
	r.mu.Lock()
	defer r.mu.Unlock()
	out := map[string]any{
		"property": r.property, "shard": shard(), "tier": Tier(), "wall_s": time.Since(r.start).Seconds(),
		"evaluations": r.evals, "nontrivial": r.nontriv, "skipped": r.skips, "classes": r.classes,
		"excluded_known": r.excl, "known_seen": r.knownSeen, "samples": r.samples, "violations": r.violations,
		"corpus_cases": r.corpusN, "distinct_nontrivial": len(r.digests), "digests_capped": len(r.digests) >= maxDigests,
		"extra": r.extra,
	}
	b, _ := json.Marshal(out)
	base := filepath.Join(outDir(), "stats."+shard())
	// a package may be run several times in one shard (e.g. fuzz + tests): append-safe unique name
	_ = os.WriteFile(base+".json", b, 0o644)
	db := make([]byte, 0, 8*len(r.digests))
	for d := range r.digests {
		db = binary.LittleEndian.AppendUint64(db, d)
	}
	_ = os.WriteFile(base+".digests", db, 0o644)
}
