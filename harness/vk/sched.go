package vk

import (
	"bytes"
	"fmt"
	"runtime"
	"runtime/debug"
	"sort"
	"strconv"
	"sync"
	"time"
)

// Sched is the cooperative scheduler: every task runs on its own goroutine but only one is resumed at a time. Yield
// points are the places where the code under test calls back into harness code (storage operations, callbacks, the
// downstream handler). The controller picks which parked task to resume (the pick function draws from rapid). A task
// that neither parks nor finishes within the quiescence timeout is treated as blocked on a real mutex; it re-joins the
// ready set when it parks. Oracles must be valid for ANY interleaving, so timing noise can cost reproducibility but can
// never create a false alarm.
type Sched struct {
	mu      sync.Mutex
	byGoid  map[int]int
	resume  map[int]chan struct{}
	events  chan schedEvent
	Trace   []string
	Quiesce time.Duration
}

type schedEvent struct {
	g     int
	point string
	done  bool
	pan   any
	stack string
}

func NewSched() *Sched {
	return &Sched{byGoid: map[int]int{}, resume: map[int]chan struct{}{}, events: make(chan schedEvent, 1024), Quiesce: 5 * time.Millisecond}
}

func goid() int {
	var buf [64]byte
	n := runtime.Stack(buf[:], false)
	f := bytes.Fields(buf[:n])
	id, _ := strconv.Atoi(string(f[1]))
	return id
}

// Yield parks the calling task (no-op for a nil scheduler or an unknown goroutine).
func (s *Sched) Yield(point string) {
	if s == nil {
		return
	}
	s.mu.Lock()
	g, ok := s.byGoid[goid()]
	ch := s.resume[g]
	s.mu.Unlock()
	if !ok {
		return
	}
	s.events <- schedEvent{g: g, point: point}
	<-ch
}

// Spawn registers task g.
func (s *Sched) Spawn(g int, f func()) {
	ch := make(chan struct{})
	s.mu.Lock()
	s.resume[g] = ch
	s.mu.Unlock()
	go func() {
		s.mu.Lock()
		s.byGoid[goid()] = g
		s.mu.Unlock()
		defer func() {
			r := recover()
			st := ""
			if r != nil {
				st = string(debug.Stack())
			}
			s.mu.Lock()
			delete(s.byGoid, goid())
			s.mu.Unlock()
			s.events <- schedEvent{g: g, done: true, pan: r, stack: st}
		}()
		s.events <- schedEvent{g: g, point: "start"}
		<-ch
		f()
	}()
}

type SchedResult struct {
	Panics   []string
	Deadlock bool  // no ready task and no event for the deadlock timeout
	Stuck    []int // tasks that never finished
	Blocked  int   // number of resume steps that ended with the task blocked (mutex)
}

// Run drives n spawned tasks to completion. pick chooses an index into the sorted ready list.
func (s *Sched) Run(n int, pick func(ready []int) int) SchedResult {
	var res SchedResult
	parked := map[int]bool{}
	finished := map[int]bool{}
	alive := n
	handle := func(e schedEvent) {
		if e.done {
			alive--
			finished[e.g] = true
			delete(parked, e.g)
			s.Trace = append(s.Trace, fmt.Sprintf("%d:done", e.g))
			if e.pan != nil {
				res.Panics = append(res.Panics, fmt.Sprintf("task %d: %v\n%s", e.g, e.pan, e.stack))
			}
		} else {
			parked[e.g] = true
			s.Trace = append(s.Trace, fmt.Sprintf("%d@%s", e.g, e.point))
		}
	}
	for len(parked) < n {
		handle(<-s.events)
	}
	for alive > 0 {
		if len(parked) == 0 {
			select {
			case e := <-s.events:
				handle(e)
			case <-time.After(3 * time.Second):
				res.Deadlock = true
				for g := 0; g < n; g++ {
					if !finished[g] {
						res.Stuck = append(res.Stuck, g)
					}
				}
				return res
			}
			continue
		}
		var ready []int
		for g := range parked {
			ready = append(ready, g)
		}
		sort.Ints(ready)
		g := ready[pick(ready)%len(ready)]
		delete(parked, g)
		s.Trace = append(s.Trace, fmt.Sprintf("resume %d", g))
		s.resume[g] <- struct{}{}
		timeout := time.After(s.Quiesce)
	wait:
		for {
			select {
			case e := <-s.events:
				handle(e)
				if e.g == g {
					break wait
				}
			case <-timeout:
				s.Trace = append(s.Trace, fmt.Sprintf("%d:blocked", g))
				res.Blocked++
				break wait
			}
		}
	}
	return res
}
