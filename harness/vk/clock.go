package vk

import (
	"sync"
	"sync/atomic"
	_ "unsafe" // go:linkname

	"github.com/gofiber/utils/v2"
)

// The virtual clock: limiter, internal/memory and internal/storage/memory read utils.Timestamp(), an atomic in the
// dependency gofiber/utils that a goroutine refreshes once a second. We start and stop that goroutine once (the
// sync.Once inside utils is then spent, so fiber's own StartTimeStampUpdater calls are no-ops) and own the variable.

//go:linkname utilsTimestamp github.com/gofiber/utils/v2.timestamp
var utilsTimestamp uint32

var clockOnce sync.Once

// FreezeClock takes over the clock (idempotent).
func FreezeClock() {
	clockOnce.Do(func() {
		utils.StartTimeStampUpdater()
		utils.StopTimeStampUpdater()
	})
}

// SetNow sets the virtual time (seconds).
func SetNow(t uint32) { FreezeClock(); atomic.StoreUint32(&utilsTimestamp, t) }

// Now returns the virtual time.
func Now() uint32 { return atomic.LoadUint32(&utilsTimestamp) }

// Advance moves the virtual clock forward.
func Advance(d uint32) uint32 { FreezeClock(); return atomic.AddUint32(&utilsTimestamp, d) }
