package vk

import (
	"bufio"
	"bytes"
	"fmt"
	"io"
	"net/http"
	"strconv"
	"strings"
)

// Response is one parsed HTTP/1.1 response.
type Response struct {
	Status  int
	Reason  string
	Headers [][2]string // in wire order
	Body    []byte
}

func (r *Response) Get(name string) []string {
	var out []string
	for _, h := range r.Headers {
		if strings.EqualFold(h[0], name) {
			out = append(out, h[1])
		}
	}
	return out
}

func isTokenChar(c byte) bool {
	if c >= '0' && c <= '9' || c >= 'a' && c <= 'z' || c >= 'A' && c <= 'Z' {
		return true
	}
	return strings.IndexByte("!#$%&'*+-.^_`|~", c) >= 0
}

// ParseResponses is a strict parser written from RFC 9112: status line `HTTP/1.1 SP 3DIGIT SP reason CRLF`, field
// lines `token ":" OWS field-content OWS CRLF` with field-content made of HTAB, SP, VCHAR and obs-text (no NUL, CR, LF
// or other control characters, no obs-fold), exactly one framing (all-digit Content-Length equal to the bytes that
// follow, or chunked), no bytes between or after pipelined responses, no body for 1xx/204/304 and HEAD. headReq[i]
// tells whether the i-th response answers a HEAD request.
func ParseResponses(raw []byte, headReq func(i int) bool) ([]*Response, error) {
	var out []*Response
	pos := 0
	final := 0 // index among the final (non 1xx) responses
	for pos < len(raw) {
		r := &Response{}
		// status line
		eol := bytes.Index(raw[pos:], []byte("\r\n"))
		if eol < 0 {
			return out, fmt.Errorf("response %d: status line without CRLF: %q", len(out), clip(raw[pos:]))
		}
		line := raw[pos : pos+eol]
		if len(line) < 12 || !bytes.HasPrefix(line, []byte("HTTP/1.1 ")) && !bytes.HasPrefix(line, []byte("HTTP/1.0 ")) {
			return out, fmt.Errorf("response %d: bad status line %q", len(out), clip(line))
		}
		code := line[9:12]
		for _, c := range code {
			if c < '0' || c > '9' {
				return out, fmt.Errorf("response %d: bad status code in %q", len(out), clip(line))
			}
		}
		r.Status, _ = strconv.Atoi(string(code))
		if len(line) > 12 {
			if line[12] != ' ' {
				return out, fmt.Errorf("response %d: no SP after the status code: %q", len(out), clip(line))
			}
			r.Reason = string(line[13:])
		}
		for _, c := range []byte(r.Reason) {
			if c < 0x20 && c != '\t' || c == 0x7f {
				return out, fmt.Errorf("response %d: control character in the reason phrase %q", len(out), r.Reason)
			}
		}
		pos += eol + 2
		// field lines
		for {
			eol = bytes.Index(raw[pos:], []byte("\r\n"))
			if eol < 0 {
				return out, fmt.Errorf("response %d: header section without terminating CRLF: %q", len(out), clip(raw[pos:]))
			}
			if eol == 0 {
				pos += 2
				break
			}
			line = raw[pos : pos+eol]
			pos += eol + 2
			colon := bytes.IndexByte(line, ':')
			if colon <= 0 {
				return out, fmt.Errorf("response %d: field line without a name: %q", len(out), clip(line))
			}
			for _, c := range line[:colon] {
				if !isTokenChar(c) {
					return out, fmt.Errorf("response %d: field name is not a token: %q", len(out), clip(line))
				}
			}
			val := bytes.Trim(line[colon+1:], " \t")
			for _, c := range val {
				if c < 0x20 && c != '\t' || c == 0x7f {
					return out, fmt.Errorf("response %d: control character 0x%02x in the value of %q: %q", len(out), c, line[:colon], clip(val))
				}
			}
			r.Headers = append(r.Headers, [2]string{string(line[:colon]), string(val)})
		}
		// framing
		cl, te := r.Get("Content-Length"), r.Get("Transfer-Encoding")
		head := headReq != nil && headReq(final)
		if head && r.Status >= 400 {
			// tolerated: an error response that closes the connection may carry its error text even when the (possibly
			// unparsable) request was a HEAD; the connection ends right after it, so no client can be desynchronised
			for _, cv := range r.Get("Connection") {
				if strings.EqualFold(cv, "close") {
					if cl := r.Get("Content-Length"); len(cl) == 1 {
						if n, err := strconv.Atoi(cl[0]); err == nil && n > 0 && pos+n == len(raw) {
							head = false // the error text is there and ends the stream
						}
					}
				}
			}
		}
		bodiless := r.Status/100 == 1 || r.Status == 204 || r.Status == 304 || head
		switch {
		case len(te) > 0 && len(cl) > 0:
			return out, fmt.Errorf("response %d: both Content-Length and Transfer-Encoding", len(out))
		case len(te) > 0:
			if len(te) != 1 || !strings.EqualFold(te[0], "chunked") {
				return out, fmt.Errorf("response %d: unsupported Transfer-Encoding %q", len(out), te)
			}
			if bodiless {
				break
			}
			for {
				eol = bytes.Index(raw[pos:], []byte("\r\n"))
				if eol < 0 {
					return out, fmt.Errorf("response %d: truncated chunk header", len(out))
				}
				szs := string(raw[pos : pos+eol])
				if i := strings.IndexByte(szs, ';'); i >= 0 {
					szs = szs[:i]
				}
				sz, err := strconv.ParseUint(strings.TrimSpace(szs), 16, 32)
				if err != nil {
					return out, fmt.Errorf("response %d: bad chunk size %q", len(out), clip(raw[pos:pos+eol]))
				}
				pos += eol + 2
				if sz == 0 {
					// trailer section
					for {
						eol = bytes.Index(raw[pos:], []byte("\r\n"))
						if eol < 0 {
							return out, fmt.Errorf("response %d: truncated trailer", len(out))
						}
						pos += eol + 2
						if eol == 0 {
							break
						}
					}
					break
				}
				if pos+int(sz)+2 > len(raw) || raw[pos+int(sz)] != '\r' || raw[pos+int(sz)+1] != '\n' {
					return out, fmt.Errorf("response %d: chunk of %d bytes not followed by CRLF", len(out), sz)
				}
				r.Body = append(r.Body, raw[pos:pos+int(sz)]...)
				pos += int(sz) + 2
			}
		case len(cl) > 0:
			for _, v := range cl[1:] {
				if v != cl[0] {
					return out, fmt.Errorf("response %d: conflicting Content-Length values %q", len(out), cl)
				}
			}
			for _, c := range []byte(cl[0]) {
				if c < '0' || c > '9' {
					return out, fmt.Errorf("response %d: Content-Length %q is not all digits", len(out), cl[0])
				}
			}
			n, err := strconv.Atoi(cl[0])
			if err != nil || cl[0] == "" {
				return out, fmt.Errorf("response %d: bad Content-Length %q", len(out), cl[0])
			}
			if bodiless {
				break
			}
			if pos+n > len(raw) {
				return out, fmt.Errorf("response %d: Content-Length %d but only %d bytes follow", len(out), n, len(raw)-pos)
			}
			r.Body = raw[pos : pos+n]
			pos += n
		default:
			if !bodiless {
				// close-delimited: everything until EOF belongs to this body
				r.Body = raw[pos:]
				pos = len(raw)
			}
		}
		if r.Status/100 != 1 {
			final++
			out = append(out, r) // interim (1xx) responses are validated but not returned
		}
	}
	return out, nil
}

func clip(b []byte) string {
	if len(b) > 200 {
		return string(b[:200]) + "…"
	}
	return string(b)
}

// NetHTTPAccepts is a second, independent opinion: Go's net/http client parser over the same bytes.
func NetHTTPAccepts(raw []byte, headReq func(i int) bool) error {
	br := bufio.NewReader(bytes.NewReader(raw))
	for i := 0; ; {
		if _, err := br.Peek(1); err != nil {
			return nil
		}
		req := &http.Request{Method: "GET"}
		if headReq != nil && headReq(i) {
			req.Method = "HEAD"
		}
		resp, err := http.ReadResponse(br, req)
		if err != nil {
			return fmt.Errorf("net/http: response %d: %w", i, err)
		}
		if resp.StatusCode/100 == 1 {
			continue // interim response
		}
		if req.Method == "HEAD" && resp.StatusCode >= 400 && resp.Close {
			return nil // see ParseResponses: an error text may follow, the connection ends here
		}
		if _, err := io.Copy(io.Discard, resp.Body); err != nil {
			return fmt.Errorf("net/http: body of response %d: %w", i, err)
		}
		resp.Body.Close()
		i++
	}
}
