package c17

import (
	"errors"
	"fmt"
	"reflect"
	"runtime"
	"strings"
	"sync"
	"sync/atomic"
	"testing"
	"time"

	"github.com/gofiber/fiber/v3"
	"github.com/gofiber/fiber/v3/middleware/idempotency"
	"github.com/valyala/fasthttp"
	"pgregory.net/rapid"

	"verifharness/vk"
)

const property = "C17"

func TestMain(m *testing.M) { vk.Main(m, property) }

func TestAAACorpus(t *testing.T)    { vk.TestCorpus(t, property) }
func TestAAAWitnesses(t *testing.T) { vk.TestWitnesses(t, property) }
func TestReplay(t *testing.T)       { vk.TestReplay(t) }

type Req struct {
	Key    string // "" | A | B  (expanded to a 36 character key)
	Method string // POST | PUT | GET
}

type Case struct {
	Split      bool     // EnableSplittingOnParsers
	Validator  bool     `json:",omitempty"` // the app has a StructValidator (go-playground style: an error for anything that is not a struct)
	Keep       []string // KeepResponseHeaders; nil = keep all
	KeepNil    bool
	Conc       []Req // concurrent requests
	Picks      []int
	Seq        []Req // sequential repeats after completion
	FailGet    int   // n-th Storage.Get fails (0 = none)
	FailSet    int   `json:",omitempty"` // n-th Storage.Set fails: the answer of a completed execution cannot be recorded
	Garble     int   `json:",omitempty"` // n-th and n+1-th Storage.Get hand out a cut-off record without an error (0 = none)
	FailLock   int   // n-th Lock fails (0 = none)
	FailSerial []int // handler executions (by serial) that return an error
	Memory     bool  // default in-memory storage + MemoryLock without yield points (only the handler yields)
	Retain     bool  `json:",omitempty"` // the external storage keeps the slices it is given (like gofiber's memory driver)
	Reuse      bool  `json:",omitempty"` // request contexts are recycled as a server does: a request that starts after another one finished is served on that one's RequestCtx
}

// structOnly is a StructValidator in the style the documentation shows (validator.Struct): values that are not structs
// (or pointers to structs) are an error.
type structOnly struct{}

func (structOnly) Validate(out any) error {
	t := reflect.TypeOf(out)
	for t != nil && t.Kind() == reflect.Pointer {
		t = t.Elem()
	}
	if t == nil || t.Kind() != reflect.Struct {
		return fmt.Errorf("validator: (nil %T)", out)
	}
	return nil
}

type fLock struct {
	inner idempotency.Locker
	s     *vk.Sched
	mu    sync.Mutex
	n     int
	fail  int
	hit   int
}

func (l *fLock) Lock(k string) error {
	l.s.Yield("lock<")
	l.mu.Lock()
	l.n++
	f := l.fail != 0 && l.n == l.fail
	if f {
		l.hit++
	}
	l.mu.Unlock()
	if f {
		return errors.New("injected lock fault")
	}
	err := l.inner.Lock(k)
	l.s.Yield("lock>")
	return err
}

func (l *fLock) Unlock(k string) error {
	l.s.Yield("unlock<")
	return l.inner.Unlock(k)
}

func fullKey(k string) string {
	if k == "" {
		return ""
	}
	return strings.Repeat(strings.ToLower(k), 36)
}

type exec struct {
	serial int
	g      int
	key    string
	ok     bool
	sig    string
}

func check(c Case) vk.Verdict {
	s := vk.NewSched()
	var st *vk.Storage
	lk := &fLock{inner: idempotency.NewMemoryLock(), fail: c.FailLock}
	cfg := idempotency.Config{}
	if !c.KeepNil {
		cfg.KeepResponseHeaders = c.Keep
		if cfg.KeepResponseHeaders == nil {
			cfg.KeepResponseHeaders = []string{}
		}
	}
	if !c.Memory {
		st = vk.NewStorage()
		st.Retain = c.Retain
		if c.FailGet > 0 {
			st.FailGet = map[int]bool{c.FailGet: true}
		}
		if c.Garble > 0 {
			st.GarbleGet = map[int]bool{c.Garble: true, c.Garble + 1: true}
		}
		if c.FailSet > 0 {
			st.FailSet = map[int]bool{c.FailSet: true}
		}
		cfg.Storage = st
		cfg.Lock = lk
	}
	appCfg := fiber.Config{EnableSplittingOnParsers: c.Split}
	if c.Validator {
		appCfg.StructValidator = structOnly{} // the documented pattern: validate.Struct(out), which refuses whatever is not a struct
	}
	app := fiber.New(appCfg)
	// a middleware in front of the idempotency middleware sets a per-request response header (a request id)
	app.Use(func(ctx fiber.Ctx) error {
		ctx.Set("X-Up", "up-"+ctx.Get("X-G"))
		// ... a header in two lines and a cookie of its own (preload hints, a visitor cookie)
		ctx.Response().Header.Add("X-Up2", "u1-"+ctx.Get("X-G"))
		ctx.Response().Header.Add("X-Up2", "u2-"+ctx.Get("X-G"))
		ctx.Cookie(&fiber.Cookie{Name: "visitor", Value: "v" + ctx.Get("X-G")})
		return ctx.Next()
	})
	app.Use(idempotency.New(cfg))
	var mu sync.Mutex
	started := map[int]bool{}
	var execs []*exec
	serial := 0
	failSerial := map[int]bool{}
	for _, n := range c.FailSerial {
		failSerial[n] = true
	}
	kept := func(h string) bool {
		if c.KeepNil {
			return true
		}
		for _, k := range c.Keep {
			if strings.EqualFold(k, h) {
				return true
			}
		}
		return false
	}
	sigOf := func(resp *fasthttp.Response) string {
		pa := func(k string) []string {
			var out []string
			for _, v := range resp.Header.PeekAll(k) {
				out = append(out, string(v)) // copy at once: PeekAll results alias one buffer
			}
			return out // in the order of the lines: the order of the field lines of one name is part of the answer
		}
		sig := fmt.Sprintf("%d|%q", resp.StatusCode(), resp.Body())
		for _, h := range []string{"X-Rep", "X-Multi", "Set-Cookie", "X-Up", "X-Up2"} {
			if kept(h) {
				vals := pa(h)
				// (EnableSplittingOnParsers is an option for parsing requests: a replayed "v1, v2" stays one field line)
				sig += fmt.Sprintf("|%s=%q", h, vals)
			}
		}
		return sig
	}
	handler := func(ctx fiber.Ctx) error {
		var g int
		_, _ = fmt.Sscan(ctx.Get("X-G"), &g)
		mu.Lock()
		started[g] = true
		serial++
		my := serial
		mu.Unlock()
		s.Yield("handler<")
		ctx.Set("X-Multi", "v1, v2")
		ctx.Response().Header.Add("X-Rep", "a")
		ctx.Response().Header.Add("X-Rep", fmt.Sprintf("b%d", my))
		ctx.Cookie(&fiber.Cookie{Name: "s", Value: fmt.Sprint(my)})
		e := &exec{serial: my, g: g, key: strings.Clone(ctx.Get("X-Idempotency-Key"))} // a copy: the header value lives in the (recycled) request buffer
		var err error
		switch {
		case failSerial[my]:
			err = fiber.NewError(418, "handler failed")
		case my%3 == 0:
			err = ctx.SendStatus(204)
			e.ok = true
		case my%4 == 1:
			// success without a body (e.g. "created, see Location")
			ctx.Set("Location", fmt.Sprintf("/item/%d", my))
			ctx.Status(201)
			e.ok = true
		default:
			err = ctx.Status(201).SendString(fmt.Sprintf("exec-%d", my))
			e.ok = true
		}
		if e.ok {
			e.sig = sigOf(ctx.Response())
		}
		s.Yield("handler>")
		mu.Lock()
		execs = append(execs, e)
		mu.Unlock()
		return err
	}
	app.All("/", handler)
	h := app.Handler()
	var free []*fasthttp.RequestCtx
	resps := make([]*fasthttp.RequestCtx, len(c.Conc)+len(c.Seq))
	doReq := func(g int, r Req) *fasthttp.RequestCtx {
		ctx := &fasthttp.RequestCtx{}
		if c.Reuse {
			mu.Lock()
			if n := len(free); n > 0 {
				ctx, free = free[n-1], free[:n-1]
			}
			mu.Unlock()
			defer func() {
				// hand the answer out as a copy and recycle the context with its buffers
				out := &fasthttp.RequestCtx{}
				ctx.Response.CopyTo(&out.Response)
				ctx.Request.Reset()
				ctx.Response.Reset()
				ctx.ResetUserValues()
				mu.Lock()
				free = append(free, ctx)
				mu.Unlock()
				resps[g] = out
			}()
		}
		ctx.Request.Header.SetMethod(r.Method)
		ctx.Request.SetRequestURI("/")
		if r.Key != "" {
			ctx.Request.Header.Set("X-Idempotency-Key", fullKey(r.Key))
		}
		ctx.Request.Header.Set("X-G", fmt.Sprint(g))
		h(ctx)
		return ctx
	}
	all := append(append([]Req(nil), c.Conc...), c.Seq...)
	if st != nil {
		st.Sched = s
	}
	lk.s = s
	for g, r := range c.Conc {
		g, r := g, r
		s.Spawn(g, func() {
			if out := doReq(g, r); !c.Reuse {
				resps[g] = out
			}
		})
	}
	pi := 0
	res := s.Run(len(c.Conc), func(ready []int) int {
		p := 0
		if pi < len(c.Picks) {
			p = c.Picks[pi]
		}
		pi++
		return p
	})
	ctxs := fmt.Sprintf("concurrent %+v then %+v (split=%v keep=%v keepNil=%v failGet=%d garble=%d failSet=%d failLock=%d failSerial=%v memory=%v)\nschedule: %v", c.Conc, c.Seq, c.Split, c.Keep, c.KeepNil, c.FailGet, c.Garble, c.FailSet, c.FailLock, c.FailSerial, c.Memory, s.Trace)
	if len(res.Panics) > 0 {
		return vk.Failf("%s\npanic: %s", ctxs, res.Panics[0])
	}
	if res.Deadlock {
		return vk.Failf("%s\ndeadlock: tasks %v never finished", ctxs, res.Stuck)
	}
	if st != nil {
		st.Sched = nil
	}
	lk.s = nil
	for i, r := range c.Seq {
		g := len(c.Conc) + i
		done := make(chan struct{})
		go func() {
			defer close(done)
			if out := doReq(g, r); !c.Reuse {
				resps[g] = out
			}
		}()
		select {
		case <-done:
		case <-time.After(5 * time.Second):
			return vk.Failf("%s\nsequential request %d %+v (nothing else is in flight) was not answered within 5s", ctxs, g, r)
		}
	}
	// ---- oracle
	protected := func(r Req) bool { return r.Key != "" && r.Method != "GET" }
	okExecs := map[string][]*exec{}
	execBy := map[int]*exec{}
	for _, e := range execs {
		execBy[e.g] = e
		if e.ok && e.key != "" && e.g < len(all) && protected(all[e.g]) {
			okExecs[e.key] = append(okExecs[e.key], e)
		}
	}
	faultsTriggered := 0
	setFaultHit := false
	if st != nil {
		ng, ns, _ := st.Counts()
		if c.FailGet > 0 && ng >= c.FailGet {
			faultsTriggered++
		}
		if c.FailSet > 0 && ns >= c.FailSet {
			faultsTriggered++
			setFaultHit = true
		}
		faultsTriggered += st.Garbled // an undecodable record is a failed lookup
	}
	faultsTriggered += lk.hit
	n500 := 0
	overlap := false
	unrecorded := -1
	if setFaultHit {
		// the execution whose answer could not be recorded: its request is answered with an error - nothing else is
		// allowed to look as if the operation had been stored
		for g, r := range all {
			if e := execBy[g]; protected(r) && e != nil && e.ok && started[g] && resps[g].Response.StatusCode() == 500 && unrecorded < 0 {
				unrecorded = g
			}
		}
		if unrecorded < 0 {
			return vk.Failf("%s\nthe storage refused to record an answer (Set fault) but no request whose handler completed was answered with an error", ctxs)
		}
	}
	for g, r := range all {
		resp := resps[g]
		code := resp.Response.StatusCode()
		if !protected(r) {
			// unaffected: the handler ran for it and it got its own answer
			e := execBy[g]
			if e == nil {
				return vk.Failf("%s\nrequest %d %+v is not subject to idempotency but its handler did not run (status %d)", ctxs, g, r, code)
			}
			if e.ok && sigOf(&resp.Response) != e.sig {
				return vk.Failf("%s\nrequest %d %+v (not subject to idempotency) got %s, its own execution produced %s", ctxs, g, r, sigOf(&resp.Response), e.sig)
			}
			continue
		}
		k := fullKey(r.Key)
		if len(okExecs[k]) > 1 {
			if setFaultHit && fullKey(all[unrecorded].Key) == k {
				return vk.Failf("%s\nSET-FAULT key %s: the answer of the first execution could not be recorded, the handler completed successfully %d times", ctxs, r.Key, len(okExecs[k]))
			}
			return vk.Failf("%s\nkey %s: the handler completed successfully %d times", ctxs, r.Key, len(okExecs[k]))
		}
		if code == 500 {
			n500++
			if g == unrecorded {
				continue
			}
			if started[g] {
				return vk.Failf("%s\nrequest %d %+v got an error answer (500) but the handler had been started for it", ctxs, g, r)
			}
			continue
		}
		if e := execBy[g]; e != nil && !e.ok {
			if code != 418 {
				return vk.Failf("%s\nrequest %d: its handler failed with 418 but the answer is %d", ctxs, g, code)
			}
			continue
		}
		if len(okExecs[k]) == 0 {
			return vk.Failf("%s\nrequest %d %+v was answered %d although no execution completed successfully for its key", ctxs, g, r, code)
		}
		want := okExecs[k][0].sig
		if got := sigOf(&resp.Response); got != want {
			return vk.Failf("%s\nrequest %d %+v got %s, the one successful execution for its key produced %s", ctxs, g, r, got, want)
		}
		if !started[g] && g < len(c.Conc) {
			overlap = true // answered from the stored response while being a concurrent duplicate
		}
	}
	if n500 != faultsTriggered {
		return vk.Failf("%s\n%d injected faults were hit but %d requests got an error answer", ctxs, faultsTriggered, n500)
	}
	dups := map[string]int{}
	for _, r := range c.Conc {
		if protected(r) {
			dups[r.Key]++
		}
	}
	concDup := false
	for _, n := range dups {
		if n >= 2 {
			concDup = true
		}
	}
	v := vk.Verdict{NonTrivial: concDup}
	if overlap {
		v.Classes = append(v.Classes, "duplicate-answered-from-record")
	}
	if faultsTriggered > 0 {
		v.Classes = append(v.Classes, "fault-hit")
	}
	if res.Blocked > 0 {
		v.Classes = append(v.Classes, "mutex-blocked-steps")
	}
	if c.Memory {
		v.Classes = append(v.Classes, "memory")
	}
	if c.Reuse {
		v.Classes = append(v.Classes, "recycled-request-contexts")
	}
	return v
}

func genReq(t *rapid.T) Req {
	return Req{Key: rapid.SampledFrom([]string{"A", "A", "A", "B", ""}).Draw(t, "key"), Method: rapid.SampledFrom([]string{"POST", "POST", "POST", "PUT", "GET"}).Draw(t, "method")}
}

func genCase(t *rapid.T) Case {
	c := Case{Split: rapid.Bool().Draw(t, "split"), Validator: rapid.IntRange(0, 3).Draw(t, "validator") == 0, Memory: rapid.IntRange(0, 4).Draw(t, "memory") == 0}
	switch rapid.IntRange(0, 3).Draw(t, "keep") {
	case 0:
		c.KeepNil = true
	case 1:
		c.Keep = []string{"X-Rep"}
	case 2:
		c.Keep = []string{"X-Multi", "x-rep", "Set-Cookie"}
	default:
		c.Keep = []string{"Set-Cookie"}
	}
	c.Reuse = rapid.Bool().Draw(t, "reuse")
	n := rapid.IntRange(2, 5).Draw(t, "nconc")
	for i := 0; i < n; i++ {
		c.Conc = append(c.Conc, genReq(t))
	}
	c.Picks = rapid.SliceOfN(rapid.IntRange(0, 4), 0, 60).Draw(t, "picks")
	ns := rapid.IntRange(0, 3).Draw(t, "nseq")
	for i := 0; i < ns; i++ {
		c.Seq = append(c.Seq, genReq(t))
	}
	if !c.Memory {
		c.Retain = rapid.IntRange(0, 2).Draw(t, "retain") == 0
		if rapid.IntRange(0, 2).Draw(t, "getfault") == 0 {
			c.FailGet = rapid.IntRange(1, 8).Draw(t, "gf")
		}
		if c.FailGet == 0 && rapid.IntRange(0, 3).Draw(t, "garble") == 0 {
			c.Garble = rapid.IntRange(2, 8).Draw(t, "gg")
		}
		if rapid.IntRange(0, 3).Draw(t, "setfault") == 0 {
			c.FailSet = rapid.IntRange(1, 3).Draw(t, "sf")
		}
		if rapid.IntRange(0, 2).Draw(t, "lockfault") == 0 {
			c.FailLock = rapid.IntRange(1, 4).Draw(t, "lf")
		}
	}
	if rapid.IntRange(0, 3).Draw(t, "hfail") == 0 {
		c.FailSerial = []int{rapid.IntRange(1, 3).Draw(t, "fs")}
	}
	return c
}

// classify recognises open finding C17-c: when the storage refuses to record the answer of a completed execution, the
// request is answered with an error (correct) but nothing remembers that the operation took place: the next duplicate
// runs the handler again. Only that exact shape - the failure is the SET-FAULT message and the same case without the
// Set fault passes.
func classify(c Case, fail string) string {
	if c.FailSet == 0 || !strings.Contains(fail, "\nSET-FAULT key ") {
		return ""
	}
	c2 := c
	c2.FailSet = 0
	if check(c2).Fail == "" {
		return "C17-c"
	}
	return ""
}

var propIdem = vk.Register(&vk.Prop[Case]{Property: property, Name: "schedule", Gen: genCase, Check: check, Classify: classify, Quick: 4000, Thorough: 8000})

func TestSchedule(t *testing.T) { propIdem.Run(t) }

// ---- re-use of a key after its lifetime, real goroutines, the middleware's default storage -----------------
//
// The scheduled property above owns the interleaving but sees storage calls as atomic steps. Here the storage is the
// one the middleware creates itself (in-memory, its own locking) and the goroutines are real: a key is used, its
// lifetime elapses (virtual clock; the stale entry is still in the storage, whose purge runs on a real-time ticker),
// and several duplicates arrive at once. In the new lifetime the handler must complete once, and every duplicate must
// get that answer - also when lookups of the stale entry overlap with the recording of the fresh one.

type StaleCase struct{ Note string }

var propStale = vk.Register(&vk.Prop[StaleCase]{Property: property, Name: "stalekey", Gen: func(*rapid.T) StaleCase { return StaleCase{} },
	Check: func(StaleCase) vk.Verdict { return vk.Verdict{Skip: true} }, Quick: 1, Thorough: 1})

func TestStaleKey(t *testing.T) {
	rounds, dups := 40000, 8
	if vk.Tier() == "thorough" {
		rounds = 120000
	}
	vk.SetNow(5_000_000)
	app := fiber.New()
	app.Use(idempotency.New(idempotency.Config{Lifetime: 2 * time.Second}))
	var counts sync.Map // key -> *int64
	app.Post("/", func(ctx fiber.Ctx) error {
		k := ctx.Get("X-Idempotency-Key")
		c, _ := counts.LoadOrStore(strings.Clone(k), new(int64))
		n := atomic.AddInt64(c.(*int64), 1)
		return ctx.SendString(fmt.Sprintf("%s#%d", k, n))
	})
	h := app.Handler()
	post := func(key string) string {
		var ctx fasthttp.RequestCtx
		ctx.Request.Header.SetMethod("POST")
		ctx.Request.SetRequestURI("/")
		ctx.Request.Header.Set("X-Idempotency-Key", key)
		h(&ctx)
		return fmt.Sprintf("%d %s", ctx.Response.StatusCode(), ctx.Response.Body())
	}
	seed := vk.Seed()
	bad := 0
	var first string
	for r := 0; r < rounds && bad < 3; r++ {
		key := fmt.Sprintf("%012d-%023d", seed%1_000_000, r)
		if got := post(key); got != "200 "+key+"#1" {
			t.Fatalf("round %d: first use of key %s answered %q", r, key, got)
		}
		vk.Advance(3) // the lifetime (2 s) has elapsed; nothing has purged the entry yet
		answers := make([]string, dups)
		var wg sync.WaitGroup
		for g := 0; g < dups; g++ {
			wg.Add(1)
			go func(g int) {
				defer wg.Done()
				for i := 0; i < (g*7+r)%5; i++ {
					runtime.Gosched()
				}
				answers[g] = post(key)
			}(g)
		}
		wg.Wait()
		late := post(key) // and one more when all is quiet
		c, _ := counts.Load(key)
		n := atomic.LoadInt64(c.(*int64))
		ok := n == 2 && late == "200 "+key+"#2"
		for _, a := range answers {
			ok = ok && a == "200 "+key+"#2"
		}
		vk.Rec.Count("stalekey", uint64(r), true, []string{"stale-key-reused-by-concurrent-duplicates"}, func() any { return map[string]any{"key": key, "answers": answers} })
		if !ok {
			bad++
			if first == "" {
				first = fmt.Sprintf("round %d: key %s was used once, its lifetime elapsed, then %d concurrent duplicates and a late one arrived: the handler completed %d times in the new lifetime (want 1); answers %q, late %q", r, key, dups, n-1, answers, late)
			}
		}
		counts.Delete(key)
	}
	if bad > 0 {
		path := vk.SaveReplay(propStale, StaleCase{Note: first}, first)
		vk.Rec.Violation("stalekey", path)
		t.Errorf("VIOLATION-CANDIDATE property=%s test=stalekey replay=%s\n%s", property, path, first)
	}
}
