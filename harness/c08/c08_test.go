package c08

import (
	"errors"
	"fmt"
	"net/url"
	"sort"
	"strings"
	"testing"

	"github.com/gofiber/fiber/v3"
	"pgregory.net/rapid"

	"verifharness/vk"
)

const property = "C08"

func TestMain(m *testing.M) { vk.Main(m, property) }

func TestAAACorpus(t *testing.T)    { vk.TestCorpus(t, property) }
func TestAAAWitnesses(t *testing.T) { vk.TestWitnesses(t, property) }
func TestReplay(t *testing.T)       { vk.TestReplay(t) }

type Node struct {
	Prefix   string
	Handler  string // "" (none configured) | ok | fail (the error handler itself returns an error)
	Name     string
	Children []Node `json:",omitempty"`
	ViaGroup bool   `json:",omitempty"` // mounted through a Group of the parent: parent.Group(head).Use(rest, sub)
	CS       bool   `json:",omitempty"` // the sub-app's own Config.CaseSensitive (the root app dispatches: its setting is the one that counts)
}

// splitGroup splits a mount prefix into a group prefix and the rest so that both together give the same full prefix
func splitGroup(p string) (string, string) {
	if i := strings.Index(p[1:], "/"); i >= 0 && i+2 < len(p) {
		return p[:i+1], p[i+1:]
	}
	return p, "/"
}

type Case struct {
	RootHandler string // "" | ok | fail
	Tree        []Node
	Method      string
	Path        string
	ErrKind     string // fiber | wrapped | joined (framework error value, directly or in the chain) | plain | fallthrough (framework 404/405)
	ErrCode     int    `json:",omitempty"`
	ChainLen    int    // handlers in the /x chain of every app
	ErrPos      int    // which handler of the chain raises the error (0-based; >= ChainLen: none, falls through)
	CatchAll    bool   // root ends with a middleware raising the error for everything that reaches it
	Repeat      int
	RootCS      bool `json:",omitempty"` // Config.CaseSensitive of the root app
	Alone       bool `json:",omitempty"` // afterwards the first sub-app that has sub-apps of its own is also served directly
	RootUnesc   bool `json:",omitempty"` // Config.UnescapePath of the root app (requests may spell a letter of the path as %XX)
	TopDown     bool `json:",omitempty"` // mount each sub-app into its parent before its own children are mounted into it
	Late        int  `json:",omitempty"` // the last Late top-level sub-apps are mounted after the root served a request, followed by RebuildTree
}

type cand struct {
	full  string
	name  string
	kind  string
	depth int
}

func fullPrefix(base, p string) string {
	if p != "" && p[0] != '/' {
		p = "/" + p // a prefix written without its leading slash is served with it, like every other path
	}
	return strings.TrimRight(strings.TrimRight(base, "/")+p, "/")
}

// candidates lists the sub-apps that configured an error handler with their full mount prefix and nesting depth. all
// collects the full prefixes for the "shared prefix" rule; a sub-app mounted at "/" inside another one legitimately has
// its parent's full prefix (it is the inner one of the two) and is not listed there a second time.
func candidates(nodes []Node, base string, depth int, out *[]cand, all *[]string) {
	for _, nd := range nodes {
		full := fullPrefix(base, nd.Prefix)
		if !(depth > 0 && full == base) {
			*all = append(*all, full)
		}
		if nd.Handler != "" {
			*out = append(*out, cand{full, nd.Name, nd.Handler, depth})
		}
		candidates(nd.Children, full, depth+1, out, all)
	}
}

// aloneCheck: a sub-app that has sub-apps of its own is, after the root application served its request, also served
// directly (its own listener, or its Handler() inside another server): there it is the root of its own tree, and the same
// rule picks the handler - the innermost sub-app of ITS tree whose prefix contains the path, else its own.
func aloneCheck(c Case, r *run) string {
	if !c.Alone {
		return ""
	}
	for _, nd := range c.Tree {
		if len(nd.Children) == 0 {
			continue
		}
		var cands []cand
		var all []string
		candidates(nd.Children, "", 0, &cands, &all)
		seen := map[string]bool{}
		for _, f := range all {
			if seen[f] {
				return "" // shared full prefixes: C04-b territory
			}
			seen[f] = true
		}
		// a request inside the first grandchild's prefix (or the node's own /x)
		path := fullPrefix("", nd.Children[0].Prefix) + "/x"
		want, wantKind := nd.Name, nd.Handler
		best, bestDepth := -1, -1
		for _, cd := range cands {
			lp, lf := strings.ToLower(path), strings.ToLower(cd.full)
			if nd.CS {
				lp, lf = path, cd.full
			}
			if cd.full == "" || lp == lf || strings.HasPrefix(lp, lf+"/") {
				if s := segments(cd.full); s > best || (s == best && cd.depth > bestDepth) {
					best, bestDepth, want, wantKind = s, cd.depth, cd.name, cd.kind
				}
			}
		}
		before := map[string]int{}
		for k, v := range r.calls {
			before[k] = v
		}
		vk.Do(r.apps[nd.Name], "GET", path)
		var ran []string
		for k, v := range r.calls {
			for i := before[k]; i < v; i++ {
				ran = append(ran, k)
			}
		}
		sort.Strings(ran)
		wantRan := want
		if wantKind == "" || wantKind == "dflt" {
			wantRan = "" // default handler
		}
		if strings.Join(ran, ",") != wantRan {
			return fmt.Sprintf("GET %s served directly by sub-app %s (prefix %q in the root application, which served a request first; own sub-apps %v with handler: %v): the error handlers that ran were %v, want %q", path, nd.Name, nd.Prefix, all, cands, ran, wantRan)
		}
		return ""
	}
	return ""
}

func segments(p string) int {
	if p == "" {
		return 0
	}
	return strings.Count(p, "/")
}

func (c Case) raise() error {
	switch c.ErrKind {
	case "fiber":
		return fiber.NewError(c.ErrCode, "custom")
	case "wrapped":
		// a framework error value further down the error chain is still a framework error value
		return fmt.Errorf("while handling: %w", fiber.NewError(c.ErrCode, "custom"))
	case "joined":
		return errors.Join(errors.New("cleanup failed"), fiber.NewError(c.ErrCode, "custom"))
	default:
		return errors.New("boom")
	}
}

type run struct {
	apps   map[string]*fiber.App // the sub-apps by name
	calls  map[string]int
	status int
	body   string
}

func build(c Case) (*fiber.App, *run) {
	r := &run{calls: map[string]int{}, apps: map[string]*fiber.App{}}
	cfg := func(name, kind string) fiber.Config {
		switch kind {
		case "ok":
			return fiber.Config{ErrorHandler: func(ctx fiber.Ctx, err error) error {
				r.calls[name]++
				return ctx.Status(599).SendString(name)
			}}
		case "fail":
			return fiber.Config{ErrorHandler: func(fiber.Ctx, error) error {
				r.calls[name]++
				return errors.New("error handler failed")
			}}
		case "fail-pass":
			// the common "render what I know, otherwise pass it on" idiom: fails with the error it was given
			// (a framework error value with its own status for 404/405/NewError)
			return fiber.Config{ErrorHandler: func(_ fiber.Ctx, err error) error {
				r.calls[name]++
				return err
			}}
		case "dflt":
			// the exported default handler, configured explicitly: this app has a handler of its own like any other
			return fiber.Config{ErrorHandler: fiber.DefaultErrorHandler}
		case "fail-fiber":
			return fiber.Config{ErrorHandler: func(fiber.Ctx, error) error {
				r.calls[name]++
				return fiber.NewError(fiber.StatusTeapot, "error handler failed with a framework error value")
			}}
		}
		return fiber.Config{}
	}
	routes := func(app *fiber.App) {
		var hs []fiber.Handler
		for i := 0; i < c.ChainLen; i++ {
			i := i
			hs = append(hs, func(ctx fiber.Ctx) error {
				if i == c.ErrPos && c.ErrKind != "fallthrough" {
					return c.raise()
				}
				return ctx.Next()
			})
		}
		app.Get("/x", hs[0], hs[1:]...)
		app.Post("/y", func(ctx fiber.Ctx) error { return ctx.Next() })
	}
	rootCfg := cfg("root", c.RootHandler)
	rootCfg.CaseSensitive = c.RootCS
	rootCfg.UnescapePath = c.RootUnesc
	root := fiber.New(rootCfg)
	var mount func(parent *fiber.App, nodes []Node)
	mount = func(parent *fiber.App, nodes []Node) {
		for _, nd := range nodes {
			subCfg := cfg(nd.Name, nd.Handler)
			subCfg.CaseSensitive = nd.CS
			sub := fiber.New(subCfg)
			r.apps[nd.Name] = sub
			routes(sub)
			use := func() {
				if nd.ViaGroup {
					head, rest := splitGroup(nd.Prefix)
					parent.Group(head).Use(rest, sub)
				} else {
					parent.Use(nd.Prefix, sub)
				}
			}
			if c.TopDown {
				use()
				mount(sub, nd.Children)
			} else {
				mount(sub, nd.Children)
				use()
			}
		}
	}
	routes(root)
	if c.Late > 0 && c.Late < len(c.Tree) {
		// the mount structure grows while the application is in service (dynamic registration): the request is
		// served by the structure that exists when it arrives
		mount(root, c.Tree[:len(c.Tree)-c.Late])
		vk.Do(root, "GET", "/warm-up")
		for k := range r.calls {
			delete(r.calls, k)
		}
		mount(root, c.Tree[len(c.Tree)-c.Late:])
		defer root.RebuildTree()
	} else {
		mount(root, c.Tree)
	}
	if c.CatchAll {
		root.Use(func(fiber.Ctx) error { return c.raise() })
	}
	return root, r
}

func check(c Case) vk.Verdict {
	var cands []cand
	var all []string
	candidates(c.Tree, "", 0, &cands, &all)
	seen := map[string]bool{}
	for _, f := range all {
		if seen[f] {
			return vk.Verdict{Skip: true} // shared full prefixes: C04-b territory
		}
		seen[f] = true
	}
	want, wantKind := "root", c.RootHandler
	best, bestDepth := -1, -1
	for _, cd := range cands {
		// the root app serves the request: prefix and path are compared the way it routes (case-sensitively or not)
		// ... and on the path it routes by: percent-decoded when the root app was configured with UnescapePath
		seen := c.Path
		if c.RootUnesc {
			if d, err := url.PathUnescape(seen); err == nil {
				seen = d
			}
		}
		lp, lf := strings.ToLower(seen), strings.ToLower(cd.full)
		if c.RootCS {
			lp, lf = seen, cd.full
		}
		if cd.full == "" || lp == lf || strings.HasPrefix(lp, lf+"/") {
			// innermost: the longest prefix, and of two nested sub-apps with the same full prefix the inner one
			if s := segments(cd.full); s > best || (s == best && cd.depth > bestDepth) {
				best, bestDepth, want, wantKind = s, cd.depth, cd.name, cd.kind
			}
		}
	}
	rep := c.Repeat
	if rep < 1 {
		rep = 1
	}
	outcomes := map[string]int{}
	var statuses []int
	for i := 0; i < rep; i++ {
		app, r := build(c)
		resp := vk.Do(app, c.Method, c.Path)
		r.status = resp.Response.StatusCode()
		r.body = string(resp.Response.Body())
		var names []string
		for n, k := range r.calls {
			names = append(names, fmt.Sprintf("%s x%d", n, k))
		}
		sort.Strings(names)
		outcomes[strings.Join(names, ",")]++
		statuses = append(statuses, r.status)
		if msg := aloneCheck(c, r); msg != "" {
			return vk.Failf("%s", msg)
		}
		if r.status == 200 {
			return vk.Verdict{Skip: true} // no error occurred (cannot happen with the generated routes, defensive)
		}
	}
	ctx := fmt.Sprintf("%s %s, mounts %v (with handler: %v), root handler %q", c.Method, c.Path, all, cands, c.RootHandler)
	wantCalls := want + " x1"
	if wantKind == "" || wantKind == "dflt" {
		wantCalls = "" // default handler: no tagged handler runs
	}
	if len(outcomes) != 1 || outcomes[wantCalls] != rep {
		return vk.Failf("%s: over %d fresh builds the error handlers that ran were %v, want exactly %q every time", ctx, rep, outcomes, wantCalls)
	}
	for _, st := range statuses {
		switch wantKind {
		case "ok":
			if st != 599 {
				return vk.Failf("%s: handler %s ran but status is %d", ctx, want, st)
			}
		case "fail", "fail-pass", "fail-fiber":
			if st != 500 {
				return vk.Failf("%s: error handler %s failed, status is %d, want 500", ctx, want, st)
			}
		default:
			// default handler: status of the framework error value, 500 for other errors; 404/405 for fall-through
			if (c.ErrKind == "fiber" || c.ErrKind == "wrapped" || c.ErrKind == "joined") && st != c.ErrCode && st != 404 && st != 405 {
				return vk.Failf("%s: default handler answered %d for fiber.NewError(%d)", ctx, st, c.ErrCode)
			}
			if c.ErrKind == "plain" && st != 500 && st != 404 && st != 405 {
				return vk.Failf("%s: default handler answered %d for a plain error", ctx, st)
			}
			if c.ErrKind == "fallthrough" && st != 404 && st != 405 {
				return vk.Failf("%s: default handler answered %d for a fall-through", ctx, st)
			}
		}
	}
	related := 0
	for i := range all {
		for j := range all {
			if i != j && all[i] != "" && strings.HasPrefix(all[j], all[i]) {
				related++
			}
		}
	}
	v := vk.Verdict{NonTrivial: len(all) >= 2 && related > 0 && len(cands) >= 1}
	v.Classes = append(v.Classes, "want:"+wantKind, "err:"+c.ErrKind)
	if len(cands) >= 2 {
		v.Classes = append(v.Classes, "candidates>=2")
	}
	if want != "root" {
		v.Classes = append(v.Classes, "sub-handler-expected")
	}
	return v
}

// ---- generator ------------------------------------------------------------------------------------------

var prefixes = []string{"/api", "/api-v2", "/apix", "/api/v1", "/a", "/a/b", "/v1", "/", "/api/", "/ab", "/Admin", "/API/v2", "noslash"}

// shareable: a child mounted at "/" may share this parent's full prefix (the parent's own key does not end in a slash
// and the parent is not itself such a child - otherwise both get the same key in the app list, which is the start-up
// panic of open finding C04-b)
func genNodes(t *rapid.T, depth int, base string, shareable bool, used map[string]bool, ctr *int) []Node {
	var out []Node
	sharedChild := false
	k := rapid.IntRange(0, 3).Draw(t, "k")
	for i := 0; i < k; i++ {
		p := rapid.SampledFrom(prefixes).Draw(t, "p")
		full := fullPrefix(base, p)
		if used[full] {
			// one sub-app mounted at "/" inside another one may share its parent's prefix (it is the inner one);
			// siblings on one prefix stay excluded
			if !(shareable && full == base && !sharedChild) {
				continue
			}
			sharedChild = true
		}
		isShared := used[full] && full == base
		used[full] = true
		*ctr++
		nd := Node{Prefix: p, Handler: rapid.SampledFrom([]string{"", "ok", "ok", "fail", "fail-pass", "fail-fiber", "dflt"}).Draw(t, "h"), Name: fmt.Sprintf("app%d", *ctr)}
		nd.ViaGroup = rapid.IntRange(0, 2).Draw(t, "viagroup") == 0
		nd.CS = rapid.IntRange(0, 2).Draw(t, "subcs") == 0
		if depth > 0 {
			// (the key of a mounted app never ends in a slash - mounting trims it - except for the root prefix itself)
			nd.Children = genNodes(t, depth-1, full, !isShared && full != "", used, ctr)
		}
		out = append(out, nd)
	}
	return out
}

func genCase(t *rapid.T) Case {
	c := Case{RootHandler: rapid.SampledFrom([]string{"", "ok", "ok", "fail", "fail-pass", "fail-fiber"}).Draw(t, "root"), RootCS: rapid.IntRange(0, 2).Draw(t, "rootcs") == 0}
	ctr := 0
	c.Tree = genNodes(t, 2, "", false, map[string]bool{"": true}, &ctr)
	var cands []cand
	var all []string
	candidates(c.Tree, "", 0, &cands, &all)
	base := ""
	if len(all) > 0 && rapid.IntRange(0, 5).Draw(t, "fromtree") != 0 {
		base = rapid.SampledFrom(all).Draw(t, "base")
	}
	sfx := rapid.SampledFrom([]string{"", "/", "/x", "/y", "-v2/x", "x", "/v1/x", "/zzz", "/b/x", "/x/x", "-v2"}).Draw(t, "sfx")
	c.Path = base + sfx
	if c.Path == "" || c.Path[0] != '/' {
		c.Path = "/" + c.Path
	}
	if rapid.IntRange(0, 4).Draw(t, "othercase") == 0 {
		c.Path = strings.ToUpper(c.Path) // routing ignores case by default: the mount prefix still contains this path
	}
	c.RootUnesc = rapid.IntRange(0, 2).Draw(t, "rootunesc") == 0
	if rapid.IntRange(0, 3).Draw(t, "pctenc") == 0 {
		// one letter of the path in its percent-encoded spelling
		var idx []int
		for i := 0; i < len(c.Path); i++ {
			if ch := c.Path[i] | 0x20; ch >= 'a' && ch <= 'z' {
				idx = append(idx, i)
			}
		}
		if len(idx) > 0 {
			i := idx[rapid.IntRange(0, len(idx)-1).Draw(t, "pctat")]
			c.Path = fmt.Sprintf("%s%%%02X%s", c.Path[:i], c.Path[i], c.Path[i+1:])
		}
	}
	c.Method = rapid.SampledFrom([]string{"GET", "GET", "POST", "PUT"}).Draw(t, "method")
	c.ErrKind = rapid.SampledFrom([]string{"fiber", "plain", "fallthrough", "wrapped", "joined"}).Draw(t, "ek")
	c.ErrCode = rapid.SampledFrom([]int{400, 403, 418, 503}).Draw(t, "code")
	c.ChainLen = rapid.IntRange(1, 3).Draw(t, "chain")
	c.ErrPos = rapid.IntRange(0, c.ChainLen).Draw(t, "errpos")
	c.CatchAll = rapid.Bool().Draw(t, "catchall") && c.ErrKind != "fallthrough"
	c.TopDown = rapid.Bool().Draw(t, "topdown")
	if len(c.Tree) > 1 && rapid.IntRange(0, 2).Draw(t, "late") == 0 {
		c.Late = rapid.IntRange(1, len(c.Tree)-1).Draw(t, "nlate")
	}
	c.Alone = rapid.IntRange(0, 2).Draw(t, "alone") == 0
	c.Repeat = 8
	if vk.Tier() == "thorough" {
		c.Repeat = 32
	}
	return c
}

var propErr = vk.Register(&vk.Prop[Case]{
	Property: property, Name: "errorhandler", Gen: genCase, Check: check,
	Quick: 6000, Thorough: 12000,
})

func TestErrorHandler(t *testing.T) { propErr.Run(t) }
