package c12

import (
	"bytes"
	"errors"
	"fmt"
	"net"
	"net/url"
	"runtime"
	"sort"
	"strings"
	"sync"
	"testing"
	"time"

	"github.com/gofiber/fiber/v3"
	"github.com/valyala/fasthttp"
	"pgregory.net/rapid"

	"verifharness/vk"
)

const property = "C12"

func TestMain(m *testing.M) { vk.Main(m, property) }

func TestAAACorpus(t *testing.T)    { vk.TestCorpus(t, property) }
func TestAAAWitnesses(t *testing.T) { vk.TestWitnesses(t, property) }
func TestReplay(t *testing.T)       { vk.TestReplay(t) }

type Msg struct {
	K, V  string
	Level uint8
}

type Case struct {
	Msgs       []Msg       // With(k, v, level) calls in order (same key overwrites)
	Via        string      `json:",omitempty"` // how the redirect names its target: "" = To(path) | route = Route(name) | routeq = Route(name, Queries) | back = Back(fallback) without Referer
	Input      [][2]string `json:",omitempty"` // WithInput(): old input fields
	InputForm  bool        `json:",omitempty"` // fields sent as form body (POST) instead of query
	Status     int         `json:",omitempty"`
	Strict     bool        `json:",omitempty"` // replay with the strict (RFC 6265 cookie-octet) client model
	GoPath     string      `json:",omitempty"` // path of the redirecting handler ("" = /go)
	NextRedir  bool        `json:",omitempty"` // the consuming handler answers with a redirect of its own (without messages)
	NextMethod string      `json:",omitempty"` // method of the request that presents the cookie ("" = GET)
	ClearAfter bool        `json:",omitempty"` // the consuming handler redirects on and THEN calls c.ClearCookie()
	NextClear  bool        `json:",omitempty"` // the consuming handler ends with c.ClearCookie() - "forget every cookie of this client"
	NextChain  bool        `json:",omitempty"` // ... and that redirect attaches a message of its own (a chain of flash redirects)
	NextPath   string      `json:",omitempty"` // path of the consuming handler ("" = /next); nested paths have a default cookie path other than "/"
	NextFail   string      `json:",omitempty"` // the consuming handler (not redirecting) fails after reading the messages: err = returns an error (default error handler), errfail = ... and the application's error handler fails too (the 500 of last resort)
}

func (c Case) goPath() string {
	if c.GoPath == "" {
		return "/go"
	}
	return c.GoPath
}

func (c Case) nextPath() string {
	if c.NextPath == "" {
		return "/next"
	}
	return c.NextPath
}

// cookiePath is the path under which an RFC 6265 client files the fiber_flash cookie of this response: the Path
// attribute, or the default-path of the request URI when there is none (5.1.4).
func cookiePath(raw []byte, requestPath string) string {
	const p = "Set-Cookie: fiber_flash="
	i := bytes.Index(raw, []byte(p))
	if i >= 0 {
		line := raw[i+len(p):]
		if j := bytes.Index(line, []byte("\r\n")); j >= 0 {
			line = line[:j]
		}
		lo := make([]byte, len(line)) // ASCII lower-casing keeps the offsets (the value is raw msgpack)
		for k, ch := range line {
			if 'A' <= ch && ch <= 'Z' {
				ch += 'a' - 'A'
			}
			lo[k] = ch
		}
		if k := bytes.LastIndex(lo, []byte("; path=")); k >= 0 {
			v := string(line[k+len("; path="):])
			if e := strings.IndexByte(v, ';'); e >= 0 {
				v = v[:e]
			}
			if strings.HasPrefix(v, "/") {
				return v
			}
		}
	}
	if j := strings.LastIndexByte(requestPath, '/'); j > 0 {
		return requestPath[:j]
	}
	return "/"
}

type seen struct {
	msgs   []string
	inputs []string
}

func newApp(c Case, s *seen) *fiber.App {
	var cfg fiber.Config
	if c.NextFail == "errfail" && !c.NextRedir {
		cfg.ErrorHandler = func(fiber.Ctx, error) error { return errors.New("rendering the error page failed") }
	}
	app := fiber.New(cfg)
	goH := func(ctx fiber.Ctx) error {
		r := ctx.Redirect()
		if c.Status != 0 {
			r.Status(c.Status)
		}
		for _, m := range c.Msgs {
			r.With(m.K, m.V, m.Level)
		}
		if len(c.Input) > 0 {
			r.WithInput()
		}
		switch c.Via {
		case "route":
			return r.Route("next")
		case "routeq":
			return r.Route("next", fiber.RedirectConfig{Queries: map[string]string{"from": "go", "n": "1"}})
		case "back":
			return r.Back(c.nextPath()) // no Referer: the fallback is the target
		}
		return r.To(c.nextPath())
	}
	app.Get(c.goPath(), goH)
	app.Post(c.goPath(), goH)
	nextH := func(ctx fiber.Ctx) error {
		s.msgs, s.inputs = nil, nil
		if ctx.Query("verifparse") == "1" {
			fiber.VerifParseFlash(ctx) // in-process request: no raw header block, the request handler did not look for the cookie
		}
		for _, m := range ctx.Redirect().Messages() {
			s.msgs = append(s.msgs, fmt.Sprintf("%q=%q@%d", m.Key, m.Value, m.Level))
		}
		for _, in := range ctx.Redirect().OldInputs() {
			s.inputs = append(s.inputs, fmt.Sprintf("%q=%q", in.Key, in.Value))
		}
		sort.Strings(s.msgs)
		sort.Strings(s.inputs)
		if c.NextClear {
			ctx.ClearCookie()
		}
		if c.NextRedir {
			r := ctx.Redirect() // e.g. a moved page or a login wall: consumes the messages
			if c.NextChain {
				r.With("chain", "B", '!')
			}
			err := r.To("/done")
			if c.ClearAfter {
				ctx.ClearCookie() // e.g. a logout middleware behind the handler: err := c.Next(); c.ClearCookie(); return err
			}
			return err
		}
		if c.NextFail != "" {
			return errors.New("the page could not be rendered")
		}
		return ctx.SendString("next")
	}
	app.Get(c.nextPath(), nextH).Name("next")
	// a method-preserving redirect (307/308) makes the client repeat its POST or PUT at the target
	app.Post(c.nextPath(), nextH)
	app.Put(c.nextPath(), nextH)
	app.Get("/done", func(ctx fiber.Ctx) error {
		s.msgs, s.inputs = nil, nil
		for _, m := range ctx.Redirect().Messages() {
			s.msgs = append(s.msgs, fmt.Sprintf("%q=%q@%d", m.Key, m.Value, m.Level))
		}
		for _, in := range ctx.Redirect().OldInputs() {
			s.inputs = append(s.inputs, fmt.Sprintf("%q=%q", in.Key, in.Value))
		}
		return ctx.SendString("done")
	})
	return app
}

// flashCookie extracts what a client following RFC 6265 5.2 stores for the first Set-Cookie: fiber_flash line of the
// raw response: the value up to the first ';' (or the end of the line) and whether the server expired the cookie.
func flashCookie(raw []byte) (val []byte, present, expired bool) {
	const p = "Set-Cookie: fiber_flash="
	i := bytes.Index(raw, []byte(p))
	if i < 0 {
		return nil, false, false
	}
	line := raw[i+len(p):]
	if j := bytes.Index(line, []byte("\r\n")); j >= 0 {
		line = line[:j]
	}
	attrs := ""
	if j := bytes.IndexByte(line, ';'); j >= 0 {
		attrs = strings.ToLower(string(line[j:]))
		line = line[:j]
	}
	if k := strings.Index(attrs, "expires="); k >= 0 {
		ds := attrs[k+len("expires="):]
		if e := strings.IndexByte(ds, ';'); e >= 0 {
			ds = ds[:e]
		}
		if tm, err := time.Parse(time.RFC1123, strings.ToUpper(ds[:1])+ds[1:]); err == nil && tm.Before(time.Now()) {
			expired = true
		} else if strings.Contains(ds, "1970") || strings.Contains(ds, "1969") || strings.Contains(ds, "2009") {
			expired = true
		}
	}
	if strings.Contains(attrs, "max-age=0") || strings.Contains(attrs, "max-age=-") {
		expired = true
	}
	return line, true, expired
}

func cookieOctets(v []byte) bool {
	for _, b := range v {
		if !(b == 0x21 || (b >= 0x23 && b <= 0x2b) || (b >= 0x2d && b <= 0x3a) || (b >= 0x3c && b <= 0x5b) || (b >= 0x5d && b <= 0x7e)) {
			return false
		}
	}
	return true
}

// lenientOK: bytes a tolerant client and fasthttp's request parser carry verbatim in a Cookie header
func lenientOK(v []byte) bool {
	for _, b := range v {
		if b <= 0x20 || b == '"' || b == ',' || b == ';' || b == '\\' || b == 0x7f {
			return false
		}
	}
	return true
}

func expected(c Case) (msgs, inputs []string) {
	idx := map[string]int{}
	var order []Msg
	for _, m := range c.Msgs {
		if i, ok := idx[m.K]; ok {
			order[i] = m
			continue
		}
		idx[m.K] = len(order)
		order = append(order, m)
	}
	for _, m := range order {
		msgs = append(msgs, fmt.Sprintf("%q=%q@%d", m.K, m.V, m.Level))
	}
	seenIn := map[string]string{}
	for _, kv := range c.Input {
		if _, dup := seenIn[kv[0]]; !dup {
			seenIn[kv[0]] = kv[1]
		}
	}
	for k, v := range seenIn {
		inputs = append(inputs, fmt.Sprintf("%q=%q", k, v))
	}
	sort.Strings(msgs)
	sort.Strings(inputs)
	return
}

func check(c Case) vk.Verdict {
	var s seen
	app := newApp(c, &s)
	// request 1
	var req1 []byte
	q := url.Values{}
	for _, kv := range c.Input {
		if _, dup := q[kv[0]]; !dup {
			q.Add(kv[0], kv[1])
		}
	}
	if c.InputForm && len(c.Input) > 0 {
		req1 = vk.Req("POST", c.goPath(), [][2]string{{"Content-Type", "application/x-www-form-urlencoded"}}, []byte(q.Encode()))
	} else if len(c.Input) > 0 {
		req1 = vk.Req("GET", c.goPath()+"?"+q.Encode(), nil, nil)
	} else {
		req1 = vk.Req("GET", c.goPath(), nil, nil)
	}
	out1, err := vk.Wire(app, req1)
	if err != nil {
		return vk.Failf("request 1: %v", err)
	}
	wantMsgs, wantInputs := expected(c)
	val, present, _ := flashCookie(out1)
	if len(wantMsgs)+len(wantInputs) == 0 {
		if present && len(val) > 0 {
			return vk.Failf("no messages were attached but the redirect sets a flash cookie %q", val)
		}
		out2, _ := vk.Wire(app, vk.Req("GET", c.nextPath(), nil, nil))
		_ = out2
		if len(s.msgs)+len(s.inputs) != 0 {
			return vk.Failf("request without cookie sees %v %v", s.msgs, s.inputs)
		}
		return vk.Verdict{Classes: []string{"empty-set"}}
	}
	if !present {
		return vk.Failf("messages %v were attached but the redirect response has no flash cookie:\n%q", wantMsgs, out1)
	}
	v := vk.Verdict{}
	if c.Strict {
		// a conforming client stores cookie-octets only; anything else it refuses or alters
		if !cookieOctets(val) {
			return vk.Failf("STRICT-CLIENT: the issued flash cookie value %q is not made of RFC 6265 cookie-octets; a conforming client cannot present it", val)
		}
	}
	// the encoding writes keys, values and the level byte raw: a set containing CTL, SP, '"', ',', ';', '\\' or DEL
	// produces a Set-Cookie value that even a tolerant client truncates or cannot return (finding C12-a)
	carry := lenientOK(val)
	for _, m := range c.Msgs {
		carry = carry && lenientOK([]byte(m.K)) && lenientOK([]byte(m.V)) && lenientOK([]byte{m.Level})
	}
	for _, kv := range c.Input {
		carry = carry && lenientOK([]byte(kv[0])) && lenientOK([]byte(kv[1]))
	}
	if !carry {
		// finding C12-a: no HTTP client can return this cookie. So that nothing else hides behind the open finding, the same
		// exchange is repeated in process (no header parsing; the flash cookie is decoded through the verif hook).
		return checkInProcess(c, wantMsgs, wantInputs)
	}
	ck := [][2]string{{"Cookie", "fiber_flash=" + string(val)}}
	m2 := "GET"
	if c.NextMethod != "" {
		m2 = c.NextMethod
	}
	out2, err := vk.Wire(app, vk.Req(m2, c.nextPath(), ck, []byte{}))
	if err != nil {
		return vk.Failf("request 2: %v", err)
	}
	if !bytes.HasPrefix(out2, []byte("HTTP/1.1 200")) && !(c.NextRedir && bytes.HasPrefix(out2, []byte("HTTP/1.1 30"))) && !(c.NextFail != "" && !c.NextRedir && bytes.HasPrefix(out2, []byte("HTTP/1.1 500"))) {
		return vk.Failf("request 2 (cookie %q) answered %q", val, firstLine(out2))
	}
	if strings.Join(s.msgs, "|") != strings.Join(wantMsgs, "|") {
		return vk.Failf("handler of the next request sees messages %v, want %v (cookie %q)", s.msgs, wantMsgs, val)
	}
	if strings.Join(s.inputs, "|") != strings.Join(wantInputs, "|") {
		return vk.Failf("handler of the next request sees old input %v, want %v (cookie %q)", s.inputs, wantInputs, val)
	}
	if c.NextRedir && c.NextChain {
		// the consuming response issues a flash cookie of its own (same name and path: it replaces the consumed one)
		val2, present2, expired2 := flashCookie(out2)
		if !present2 || expired2 || len(val2) == 0 {
			return vk.Failf("the handler of %s consumed the messages and redirected with a message of its own, but its response carries no live flash cookie (present=%v expired=%v): the new message is lost", c.nextPath(), present2, expired2)
		}
		if held, issued := cookiePath(out1, c.goPath()), cookiePath(out2, c.nextPath()); held != issued {
			return vk.Failf("the chained flash cookie is issued for path %q, the consumed one is held under %q: the client keeps both", issued, held)
		}
		out3, err := vk.Wire(app, vk.Req("GET", "/done", [][2]string{{"Cookie", "fiber_flash=" + string(val2)}}, nil))
		if err != nil {
			return vk.Failf("request 3: %v", err)
		}
		if want := []string{`"chain"="B"@33`}; strings.Join(s.msgs, "|") != strings.Join(want, "|") || len(s.inputs) != 0 {
			return vk.Failf("second hop of a flash chain: the handler of /done sees %v %v, want %v (first hop delivered %v)", s.msgs, s.inputs, want, wantMsgs)
		}
		if _, p3, e3 := flashCookie(out3); !p3 || !e3 {
			return vk.Failf("second hop of a flash chain: the consuming response does not expire the cookie (present=%v expired=%v)", p3, e3)
		}
		return vk.Verdict{NonTrivial: true, Classes: []string{"replayed", "flash-chain"}}
	}
	// response 2 must expire the cookie so that a conforming client presents the messages exactly once
	_, present2, expired2 := flashCookie(out2)
	if present2 && expired2 {
		// a cookie is identified by name and path: the expiring Set-Cookie must address the cookie the client holds
		if held, cleared := cookiePath(out1, c.goPath()), cookiePath(out2, c.nextPath()); held != cleared {
			return vk.Failf("the response of %s that consumed the flash cookie expires a cookie with path %q, but the client holds it under path %q (issued by %s): a conforming client keeps it and presents the messages %v again", c.nextPath(), cleared, held, c.goPath(), s.msgs)
		}
	}
	if !present2 || !expired2 {
		out3, _ := vk.Wire(app, vk.Req("GET", c.nextPath(), ck, nil)) // the client still holds the cookie
		_ = out3
		return vk.Failf("the response that consumed the flash cookie does not expire it (Set-Cookie present=%v expired=%v); the client presents it again and the handler sees %v a second time", present2, expired2, s.msgs)
	}
	// request 3: cookie gone
	if _, err := vk.Wire(app, vk.Req("GET", c.nextPath(), nil, nil)); err != nil {
		return vk.Failf("request 3: %v", err)
	}
	if len(s.msgs)+len(s.inputs) != 0 {
		return vk.Failf("request without the cookie sees %v %v", s.msgs, s.inputs)
	}
	// not-well-formed encodings: truncations of the issued value yield no messages
	for cut := 1; cut < len(val); cut += 1 + len(val)/24 {
		if _, err := vk.Wire(app, vk.Req("GET", c.nextPath(), [][2]string{{"Cookie", "fiber_flash=" + string(val[:cut])}}, nil)); err != nil {
			return vk.Failf("truncated cookie %q: %v", val[:cut], err)
		}
		if len(s.msgs)+len(s.inputs) != 0 {
			return vk.Failf("truncated cookie (%d of %d bytes, not a well-formed encoding) yields messages %v %v", cut, len(val), s.msgs, s.inputs)
		}
	}
	nontriv := len(wantMsgs)+len(wantInputs) >= 2
	for _, m := range c.Msgs {
		for _, r := range m.K + m.V {
			if !(r >= 'a' && r <= 'z' || r >= 'A' && r <= 'Z' || r >= '0' && r <= '9') {
				nontriv = true
			}
		}
	}
	v.NonTrivial = nontriv
	if len(wantInputs) > 0 {
		v.Classes = append(v.Classes, "old-input")
	}
	v.Classes = append(v.Classes, "replayed")
	return v
}

// crlfInEncoding: the msgpack encoding of the message set contains a CR or LF byte (in a string, as level 10/13, or as a
// byte of a str16 length). Cookie() replaces those bytes since the C07-c repair, so such a set does not survive even in
// process (part of C12-a: the encoding is not cookie-safe).
func crlfInEncoding(c Case) bool {
	bad := func(x string) bool {
		if strings.ContainsAny(x, "\r\n") {
			return true
		}
		if n := len(x); n >= 256 && n < 65536 {
			hi, lo := byte(n>>8), byte(n)
			return hi == '\r' || hi == '\n' || lo == '\r' || lo == '\n'
		}
		return false
	}
	for _, m := range c.Msgs {
		if bad(m.K) || bad(m.V) || m.Level == '\r' || m.Level == '\n' {
			return true
		}
	}
	for _, kv := range c.Input {
		if bad(kv[0]) || bad(kv[1]) {
			return true
		}
	}
	return false
}

func checkInProcess(c Case, wantMsgs, wantInputs []string) vk.Verdict {
	if crlfInEncoding(c) {
		return vk.Verdict{Excluded: "C12-a", Classes: []string{"not-replayable-even-in-process(CR/LF in the encoding)"}}
	}
	var s seen
	app := newApp(c, &s)
	q := url.Values{}
	for _, kv := range c.Input {
		if _, dup := q[kv[0]]; !dup {
			q.Add(kv[0], kv[1])
		}
	}
	var r1 *fasthttp.RequestCtx
	if c.InputForm && len(c.Input) > 0 {
		r1 = vk.DoAddr(app, nil, "POST", c.goPath(), []byte(q.Encode()), "Content-Type", "application/x-www-form-urlencoded")
	} else if len(c.Input) > 0 {
		r1 = vk.DoAddr(app, nil, "GET", c.goPath()+"?"+q.Encode(), nil)
	} else {
		r1 = vk.DoAddr(app, nil, "GET", c.goPath(), nil)
	}
	raw := r1.Response.Header.PeekCookie("fiber_flash")
	if len(raw) == 0 {
		return vk.Failf("in process: messages %v were attached but the redirect response has no flash cookie", wantMsgs)
	}
	val := bytes.TrimPrefix(raw, []byte("fiber_flash="))
	if i := bytes.LastIndex(val, []byte("; path=/")); i >= 0 {
		val = val[:i]
	}
	deliver := func(withCookie bool) *fasthttp.RequestCtx {
		var req fasthttp.Request
		req.Header.SetMethod("GET")
		req.SetRequestURI(c.nextPath() + "?verifparse=1")
		if withCookie {
			req.Header.SetCookieBytesKV([]byte("fiber_flash"), val)
		}
		ctx := &fasthttp.RequestCtx{}
		ctx.Init(&req, &net.TCPAddr{IP: net.IPv4(10, 0, 0, 9), Port: 1234}, nil)
		app.Handler()(ctx)
		return ctx
	}
	r2 := deliver(true)
	if r2.Response.StatusCode() != 200 && !(c.NextRedir && r2.Response.StatusCode()/10 == 30) && !(c.NextFail != "" && !c.NextRedir && r2.Response.StatusCode() == 500) {
		return vk.Failf("in process: request 2 answered %d", r2.Response.StatusCode())
	}
	if strings.Join(s.msgs, "|") != strings.Join(wantMsgs, "|") {
		return vk.Failf("in process (cookie %q cannot be carried by HTTP, C12-a): the next handler sees messages %v, want %v", val, s.msgs, wantMsgs)
	}
	if strings.Join(s.inputs, "|") != strings.Join(wantInputs, "|") {
		return vk.Failf("in process (cookie %q cannot be carried by HTTP, C12-a): the next handler sees old input %v, want %v", val, s.inputs, wantInputs)
	}
	fc := fasthttp.AcquireCookie()
	defer fasthttp.ReleaseCookie(fc)
	fc.SetKey("fiber_flash")
	if c.NextRedir && c.NextChain {
		// the consuming response issues the next flash cookie of the chain instead of expiring the name
		if !r2.Response.Header.Cookie(fc) || !bytes.Contains(fc.Value(), []byte("chain")) || (!fc.Expire().IsZero() && fc.Expire().Before(time.Now()) && !fc.Expire().Equal(fasthttp.CookieExpireUnlimited)) {
			return vk.Failf("in process: the consuming handler redirected with a message of its own, but its response carries no live flash cookie with it (%q)", r2.Response.Header.PeekCookie("fiber_flash"))
		}
		return vk.Verdict{NonTrivial: true, Classes: []string{"delivered-in-process(C12-a)", "flash-chain"}}
	}
	if !r2.Response.Header.Cookie(fc) || !(fc.Expire().Before(time.Now()) && !fc.Expire().Equal(fasthttp.CookieExpireUnlimited) || fc.MaxAge() < 0) {
		return vk.Failf("in process: the response that consumed the flash cookie does not expire it (%q)", r2.Response.Header.PeekCookie("fiber_flash"))
	}
	deliver(false)
	if len(s.msgs)+len(s.inputs) != 0 {
		return vk.Failf("in process: request without the cookie sees %v %v", s.msgs, s.inputs)
	}
	v := vk.Verdict{NonTrivial: len(wantMsgs)+len(wantInputs) >= 2, Classes: []string{"delivered-in-process(C12-a)"}}
	if len(wantInputs) > 0 {
		v.Classes = append(v.Classes, "old-input")
	}
	return v
}

func firstLine(b []byte) string {
	if i := bytes.Index(b, []byte("\r\n")); i >= 0 {
		return string(b[:i])
	}
	return string(b)
}

// classify: open finding C12-a - the strict client model refuses the issued cookie value.
func classify(c Case, fail string) string {
	if strings.HasPrefix(fail, "STRICT-CLIENT:") {
		return "C12-a"
	}
	return ""
}

var strPool = []string{"", "a", "ok", "Saved!", "welcome back", "x;y", "a,b", "k=v", `say "hi"`, "tab\there", "line\nbreak", "nul\x00byte", "é", "日本語", "back\\slash", "%41", "+", "a b c", "del\x7f"}

func genStr(t *rapid.T, label string) string {
	switch rapid.IntRange(0, 9).Draw(t, label+"k") {
	case 0, 1, 2, 3:
		return rapid.StringMatching(`[A-Za-z0-9_.!-]{0,12}`).Draw(t, label)
	case 4, 5, 6:
		return rapid.StringMatching(`[!#-+\--:<-\[\]-~]{1,16}`).Draw(t, label)
	case 7:
		return rapid.SampledFrom([]string{"é", "日本語", "naïve", "ключ", "%41", "+", "a=b", "<b>", "{}", "émoji😀"}).Draw(t, label)
	case 8:
		return rapid.SampledFrom(strPool).Draw(t, label)
	default:
		return rapid.StringN(0, 8, 24).Draw(t, label)
	}
}

func genCase(t *rapid.T) Case {
	c := Case{Status: rapid.SampledFrom([]int{0, 0, 301, 303, 307}).Draw(t, "status"), Strict: rapid.IntRange(0, 9).Draw(t, "strict") == 0,
		NextRedir: rapid.IntRange(0, 3).Draw(t, "nextredir") == 0, NextChain: rapid.Bool().Draw(t, "nextchain"), ClearAfter: rapid.IntRange(0, 2).Draw(t, "clearafter") == 0,
		GoPath: rapid.SampledFrom([]string{"", "", "/area/go", "/a/b/c/go"}).Draw(t, "gopath"), NextPath: rapid.SampledFrom([]string{"", "", "/app/next/deep", "/users/42/edit"}).Draw(t, "nextpath"),
		Via: rapid.SampledFrom([]string{"", "", "route", "routeq", "back"}).Draw(t, "via"), NextClear: rapid.IntRange(0, 4).Draw(t, "nextclear") == 0,
		NextFail:   rapid.SampledFrom([]string{"", "", "", "", "err", "errfail"}).Draw(t, "nextfail"),
		NextMethod: rapid.SampledFrom([]string{"", "", "", "POST", "PUT"}).Draw(t, "nextmethod")}
	n := rapid.IntRange(0, 5).Draw(t, "nmsgs")
	for i := 0; i < n; i++ {
		m := Msg{K: genStr(t, "key"), V: genStr(t, "val")}
		if i > 0 && rapid.IntRange(0, 4).Draw(t, "samekey") == 0 {
			m.K = c.Msgs[0].K
		}
		switch rapid.IntRange(0, 5).Draw(t, "lvlk") {
		case 0, 1, 2:
			m.Level = uint8(rapid.SampledFrom([]int{0x21, 0x23, 0x24, 0x30, 0x31, 0x41, 0x5a, 0x61, 0x7e}).Draw(t, "level"))
		case 3, 4:
			m.Level = uint8(rapid.IntRange(0x80, 0xff).Draw(t, "level"))
		default:
			m.Level = uint8(rapid.IntRange(0, 255).Draw(t, "level"))
		}
		c.Msgs = append(c.Msgs, m)
	}
	if rapid.IntRange(0, 2).Draw(t, "input") == 0 {
		ni := rapid.IntRange(1, 3).Draw(t, "ninput")
		for i := 0; i < ni; i++ {
			c.Input = append(c.Input, [2]string{rapid.StringMatching(`[a-z]{1,6}`).Draw(t, "ik"), rapid.StringMatching(`[A-Za-z0-9_.!-]{0,10}`).Draw(t, "iv")})
		}
		c.InputForm = rapid.Bool().Draw(t, "form")
		if len(c.Msgs) > 0 && rapid.IntRange(0, 2).Draw(t, "msgkey=inputkey") == 0 {
			// the usual "error keyed by the field name" pattern: messages and old input are separate name spaces
			c.Msgs[rapid.IntRange(0, len(c.Msgs)-1).Draw(t, "which")].K = c.Input[0][0]
		}
	}
	return c
}

var propFlash = vk.Register(&vk.Prop[Case]{Property: property, Name: "roundtrip", Gen: genCase, Check: check, Classify: classify, Quick: 15000, Thorough: 60000})

func TestRoundTrip(t *testing.T) { propFlash.Run(t) }

// ---- arbitrary cookie bytes -----------------------------------------------------------------------------

type RawCase struct {
	Cookie []byte
}

var allocMu sync.Mutex

// definitelyMalformed: the bytes cannot be (a prefix-complete) msgpack array of messages.
func definitelyMalformed(b []byte) bool {
	if len(b) == 0 {
		return true
	}
	var n, hdr int
	switch {
	case b[0] >= 0x90 && b[0] <= 0x9f:
		n, hdr = int(b[0]&0x0f), 1
	case b[0] == 0xdc:
		if len(b) < 3 {
			return true
		}
		n, hdr = int(b[1])<<8|int(b[2]), 3
	case b[0] == 0xdd:
		if len(b) < 5 {
			return true
		}
		n, hdr = int(b[1])<<24|int(b[2])<<16|int(b[3])<<8|int(b[4]), 5
	default:
		return true
	}
	if n > len(b)-hdr {
		return true // fewer bytes than announced elements
	}
	// every element must start like a map
	if n > 0 {
		e := b[hdr]
		if !((e >= 0x80 && e <= 0x8f) || e == 0xde || e == 0xdf) {
			return true
		}
	}
	return false
}

func checkRaw(c RawCase) vk.Verdict {
	for _, x := range c.Cookie {
		if x == '\r' || x == '\n' || x == 0 {
			return vk.Verdict{Skip: true} // cannot be carried in a header value (fasthttp answers 400 before any handler runs)
		}
	}
	var s seen
	app := newApp(Case{}, &s)
	req := vk.Req("GET", "/next", [][2]string{{"Cookie", "fiber_flash=" + string(c.Cookie)}}, nil)
	// warm-up so that pools are filled, then measure the decoding cost
	if _, err := vk.Wire(app, vk.Req("GET", "/next", [][2]string{{"Cookie", "fiber_flash=x"}}, nil)); err != nil {
		return vk.Failf("warm-up: %v", err)
	}
	allocMu.Lock()
	var m0, m1 runtime.MemStats
	runtime.ReadMemStats(&m0)
	t0 := time.Now()
	out, err := vk.Wire(app, req)
	dur := time.Since(t0)
	runtime.ReadMemStats(&m1)
	allocMu.Unlock()
	if err != nil {
		return vk.Failf("cookie %q: %v", c.Cookie, err)
	}
	alloc := m1.TotalAlloc - m0.TotalAlloc
	if limit := uint64(256<<10 + 256*len(c.Cookie)); alloc > limit {
		return vk.Failf("cookie %q (%d bytes): decoding allocated %d bytes (limit %d) in %v", c.Cookie, len(c.Cookie), alloc, limit, dur)
	}
	ran := bytes.HasPrefix(out, []byte("HTTP/1.1 200"))
	if ran && definitelyMalformed(c.Cookie) && len(s.msgs)+len(s.inputs) > 0 {
		return vk.Failf("cookie %q is not a well-formed encoding but the handler sees %v %v", c.Cookie, s.msgs, s.inputs)
	}
	return vk.Verdict{NonTrivial: ran && len(c.Cookie) > 0 && c.Cookie[0] >= 0x90, Classes: []string{fmt.Sprintf("handler-ran:%v", ran), fmt.Sprintf("malformed:%v", definitelyMalformed(c.Cookie))}}
}

func genRaw(t *rapid.T) RawCase {
	var b []byte
	hdr := rapid.SampledFrom([][]byte{{0x90}, {0x91}, {0x92}, {0x9f}, {0xdc, 0x00, 0x02}, {0xdc, 0xff, 0xff}, {0xdd, 0x00, 0x00, 0x00, 0x01}, {0xdd, 0x21, 0x21, 0x21, 0x21},
		{0xdd, 0x7f, 0xff, 0xff, 0xff}, {0xdd, 0xff, 0xff, 0xff, 0xff}, {0x80}, {0xa1, 'x'}, {}}).Draw(t, "hdr")
	b = append(b, hdr...)
	frag := rapid.SampledFrom([][]byte{{0x80}, {0x81}, {0x84}, {0xa3, 'k', 'e', 'y'}, {0xa5, 'v', 'a', 'l', 'u', 'e'}, {0xa5, 'l', 'e', 'v', 'e', 'l'}, {0xaa, 'i', 's', 'O', 'l', 'd', 'I', 'n', 'p', 'u', 't'},
		{0xc3}, {0xc2}, {0xa1, 'x'}, {0xa0}, {0x21}, {0xcc, 0xff}, {0xde, 0xff, 0xff}, {0xdf, 0xff, 0xff, 0xff, 0xff}, {0xdb, 0x7f, 0xff, 0xff, 0xff}, {0xc1}, {0xd9, 0x05, 'h', 'e', 'l', 'l', 'o'}, {0xc6, 0xff, 0xff, 0xff, 0xff}, {0x92}, {0xdd, 0x10, 0x00, 0x00, 0x00}})
	n := rapid.IntRange(0, 10).Draw(t, "nfrag")
	for i := 0; i < n; i++ {
		b = append(b, rapid.OneOf(frag, rapid.SliceOfN(rapid.Byte(), 1, 3)).Draw(t, "frag")...)
	}
	return RawCase{Cookie: b}
}

var propRaw = vk.Register(&vk.Prop[RawCase]{Property: property, Name: "rawcookie", Gen: genRaw, Check: checkRaw, Quick: 6000, Thorough: 40000})

func TestRawCookie(t *testing.T) { propRaw.Run(t) }
func FuzzRawCookie(f *testing.F) { propRaw.Fuzz(f) }

// ---- sequences of cookies on one server (the context and its message slice are recycled) -------------------------

type SeqMsg struct {
	K, V   string
	Level  uint8
	Old    bool
	Fields []string // which of key|value|level|isOldInput the map carries, in this order (others keep their zero value)
}

type SeqStep struct {
	Kind string   // valid | cut | none | blank
	Msgs []SeqMsg `json:",omitempty"`
	Cut  int      `json:",omitempty"` // cut: number of bytes kept (0 < Cut < len(encoding))
}

type SeqCase struct{ Steps []SeqStep }

func encodeSeq(ms []SeqMsg) []byte {
	b := []byte{0x90 | byte(len(ms))}
	str := func(s string) { b = append(b, 0xa0|byte(len(s))); b = append(b, s...) }
	for _, m := range ms {
		b = append(b, 0x80|byte(len(m.Fields)))
		for _, f := range m.Fields {
			str(f)
			switch f {
			case "key":
				str(m.K)
			case "value":
				str(m.V)
			case "level":
				b = append(b, m.Level)
			case "isOldInput":
				if m.Old {
					b = append(b, 0xc3)
				} else {
					b = append(b, 0xc2)
				}
			}
		}
	}
	return b
}

func has(fs []string, f string) bool {
	for _, x := range fs {
		if x == f {
			return true
		}
	}
	return false
}

func checkSeq(c SeqCase) vk.Verdict {
	var s seen
	app := newApp(Case{}, &s)
	v := vk.Verdict{}
	cutBefore, afterCut := false, false
	for i, st := range c.Steps {
		var hdr [][2]string
		var cookie []byte
		var wantM, wantI []string
		switch st.Kind {
		case "valid", "blank":
			cookie = encodeSeq(st.Msgs)
			for _, m := range st.Msgs {
				k, val, lvl, old := "", "", uint8(0), false
				if has(m.Fields, "key") {
					k = m.K
				}
				if has(m.Fields, "value") {
					val = m.V
				}
				if has(m.Fields, "level") {
					lvl = m.Level
				}
				if has(m.Fields, "isOldInput") {
					old = m.Old
				}
				if old {
					wantI = append(wantI, fmt.Sprintf("%q=%q", k, val))
				} else {
					wantM = append(wantM, fmt.Sprintf("%q=%q@%d", k, val, lvl))
				}
			}
			if cutBefore {
				afterCut = true
			}
		case "cut":
			full := encodeSeq(st.Msgs)
			if st.Cut <= 0 || st.Cut >= len(full) {
				return vk.Verdict{Skip: true}
			}
			cookie = full[:st.Cut] // a proper prefix of an encoding announces more than it holds: not well-formed
			cutBefore = true
		}
		if st.Kind != "none" {
			hdr = [][2]string{{"Cookie", "fiber_flash=" + string(cookie)}}
		}
		sort.Strings(wantM)
		sort.Strings(wantI)
		s.msgs, s.inputs = []string{"(handler did not run)"}, nil
		out, err := vk.Wire(app, vk.Req("GET", "/next", hdr, nil))
		if err != nil {
			return vk.Failf("step %d: %v", i, err)
		}
		if !bytes.HasPrefix(out, []byte("HTTP/1.1 200")) {
			return vk.Failf("step %d (%s cookie %q) answered %q", i, st.Kind, cookie, firstLine(out))
		}
		// duplicate old-input keys collapse in OldInputs(); compare as sets of distinct lines
		if strings.Join(s.msgs, "|") != strings.Join(wantM, "|") || strings.Join(dedup(s.inputs), "|") != strings.Join(dedup(wantI), "|") {
			return vk.Failf("step %d of %d (%s cookie %q): the handler sees messages %v and old input %v, this cookie alone carries %v and %v\nsteps: %+v", i, len(c.Steps), st.Kind, cookie, s.msgs, s.inputs, wantM, wantI, c.Steps)
		}
	}
	v.NonTrivial = afterCut
	if afterCut {
		v.Classes = append(v.Classes, "well-formed-after-malformed")
	}
	v.Classes = append(v.Classes, fmt.Sprintf("steps:%d", len(c.Steps)))
	return v
}

func dedup(in []string) []string {
	var out []string
	for _, x := range in {
		if len(out) == 0 || out[len(out)-1] != x {
			out = append(out, x)
		}
	}
	return out
}

func genSeq(t *rapid.T) SeqCase {
	var c SeqCase
	n := rapid.IntRange(2, 6).Draw(t, "nsteps")
	tok := rapid.StringMatching(`[a-z0-9]{1,6}`)
	for i := 0; i < n; i++ {
		st := SeqStep{Kind: rapid.SampledFrom([]string{"valid", "valid", "cut", "cut", "blank", "blank", "none"}).Draw(t, "kind")}
		if st.Kind != "none" {
			nm := rapid.IntRange(1, 4).Draw(t, "nm")
			for j := 0; j < nm; j++ {
				m := SeqMsg{K: fmt.Sprintf("k%d%s", i, tok.Draw(t, "k")), V: fmt.Sprintf("v%d%s", i, tok.Draw(t, "v")), Level: uint8(rapid.SampledFrom([]int{0x21, 0x23, 0x30, 0x31, 0x41, 0x5a, 0x61, 0x7e}).Draw(t, "lvl")), Old: rapid.IntRange(0, 3).Draw(t, "old") == 0}
				all := []string{"key", "value", "level", "isOldInput"}
				if st.Kind == "blank" {
					m.Fields = rapid.SliceOfNDistinct(rapid.SampledFrom(all), 0, 2, rapid.ID[string]).Draw(t, "fields")
				} else {
					m.Fields = rapid.Permutation(all).Draw(t, "fields")
				}
				st.Msgs = append(st.Msgs, m)
			}
			if st.Kind == "cut" {
				st.Cut = rapid.IntRange(1, len(encodeSeq(st.Msgs))-1).Draw(t, "cut")
			}
		}
		c.Steps = append(c.Steps, st)
	}
	return c
}

var propSeq = vk.Register(&vk.Prop[SeqCase]{Property: property, Name: "cookiesequence", Gen: genSeq, Check: checkSeq, Quick: 6000, Thorough: 60000})

func TestCookieSequence(t *testing.T) { propSeq.Run(t) }

// ---- several redirects being prepared at the same time -----------------------------------------------------------------

// FlightCase: 2-3 requests are in flight at once; each handler attaches its own messages with With() one by one and then
// redirects. The interleaving is part of the case (yield points around every With and in front of To). Oracle: every
// response carries exactly the flash cookie the same handler produces when it is served alone on a fresh app.
type FlightCase struct {
	Reqs  [][]Msg
	Input []bool // request i also attaches its query as old input
	Picks []int
}

func flightApp(c FlightCase, s *vk.Sched) *fiber.App {
	app := fiber.New()
	app.Get("/go/:i", func(ctx fiber.Ctx) error {
		i := fiber.Params[int](ctx, "i")
		r := ctx.Redirect()
		for _, m := range c.Reqs[i] {
			s.Yield("with<")
			r.With(m.K, m.V, m.Level)
			s.Yield("with>")
		}
		if c.Input[i] {
			s.Yield("input<")
			r.WithInput()
		}
		s.Yield("to<")
		return r.To("/next")
	})
	return app
}

func flashOf(r *fasthttp.RequestCtx) string {
	ck := fasthttp.AcquireCookie()
	defer fasthttp.ReleaseCookie(ck)
	ck.SetKey(fiber.FlashCookieName)
	if r.Response.Header.Cookie(ck) {
		return string(ck.Value())
	}
	return "<no flash cookie>"
}

func checkFlight(c FlightCase) vk.Verdict {
	uri := func(i int) string { return fmt.Sprintf("/go/%d?who=client%d", i, i) }
	solo := make([]string, len(c.Reqs))
	for i := range c.Reqs {
		solo[i] = flashOf(vk.Do(flightApp(c, nil), "GET", uri(i)))
	}
	s := vk.NewSched()
	app := flightApp(c, s)
	got := make([]string, len(c.Reqs))
	for g := range c.Reqs {
		g := g
		s.Spawn(g, func() { got[g] = flashOf(vk.Do(app, "GET", uri(g))) })
	}
	pi := 0
	res := s.Run(len(c.Reqs), func(ready []int) int {
		p := 0
		if pi < len(c.Picks) {
			p = c.Picks[pi]
		}
		pi++
		return p
	})
	desc := fmt.Sprintf("%d redirects prepared at the same time (messages %v, old input %v)\nschedule: %v", len(c.Reqs), c.Reqs, c.Input, s.Trace)
	if len(res.Panics) > 0 {
		return vk.Failf("%s\npanic: %s", desc, res.Panics[0])
	}
	if res.Deadlock {
		return vk.Failf("%s\ndeadlock: %v", desc, res.Stuck)
	}
	for i := range c.Reqs {
		if got[i] != solo[i] {
			return vk.Failf("%s\nrequest %d: its response carries the flash cookie %q; served alone the same handler sends %q", desc, i, got[i], solo[i])
		}
	}
	overlap, open := false, 0
	for _, ev := range s.Trace {
		switch {
		case strings.HasSuffix(ev, "@with>"):
			open++
			if open > 1 {
				overlap = true
			}
		case strings.HasSuffix(ev, ":done"):
			open = 0
		}
	}
	return vk.Verdict{NonTrivial: overlap, Classes: []string{fmt.Sprintf("in-flight:%d", len(c.Reqs))}}
}

var propFlight = vk.Register(&vk.Prop[FlightCase]{Property: property, Name: "inflight", Check: checkFlight, Quick: 1500, Thorough: 8000,
	Gen: func(t *rapid.T) FlightCase {
		var c FlightCase
		n := rapid.IntRange(2, 3).Draw(t, "n")
		for i := 0; i < n; i++ {
			k := rapid.IntRange(0, 3).Draw(t, "nmsgs")
			var ms []Msg
			for j := 0; j < k; j++ {
				ms = append(ms, Msg{K: rapid.SampledFrom([]string{"error", "success", "info", "k"}).Draw(t, "k"), V: fmt.Sprintf("text-%d-%d", i, j), Level: uint8(rapid.IntRange(0x21, 0x24).Draw(t, "lvl"))})
			}
			c.Reqs = append(c.Reqs, ms)
			c.Input = append(c.Input, rapid.IntRange(0, 3).Draw(t, "input") == 0)
		}
		c.Picks = rapid.SliceOfN(rapid.IntRange(0, 2), 0, 40).Draw(t, "picks")
		return c
	}})

func TestInFlight(t *testing.T) { propFlight.Run(t) }
