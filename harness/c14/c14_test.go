package c14

import (
	"fmt"
	"net"
	"strconv"
	"strings"
	"sync"
	"testing"
	"time"

	"github.com/gofiber/fiber/v3"
	"github.com/gofiber/fiber/v3/middleware/cache"
	"github.com/valyala/fasthttp"
	"pgregory.net/rapid"

	"verifharness/vk"
)

const property = "C14"

func TestMain(m *testing.M) { vk.Main(m, property) }

func TestAAACorpus(t *testing.T)    { vk.TestCorpus(t, property) }
func TestAAAWitnesses(t *testing.T) { vk.TestWitnesses(t, property) }
func TestReplay(t *testing.T)       { vk.TestReplay(t) }

type Req struct {
	Method  string
	Path    string
	V       string `json:",omitempty"` // query value that is part of the key with the custom key generator
	CC      string `json:",omitempty"` // request Cache-Control: "" | no-cache | no-store
	Inv     bool   `json:",omitempty"` // CacheInvalidator returns true for this request
	TTL0    bool   `json:",omitempty"` // ExpirationGenerator returns 0 (expired at once) instead of 1h
	Tick    bool   `json:",omitempty"` // no request: ten minutes pass for the storage (its TTLs run on the virtual clock); every entry was stored for an hour, so nothing may change
	Skip    bool   `json:",omitempty"` // Config.Next returns true for this request
	Restart bool   `json:",omitempty"` // no request: the process restarts - a new instance of the middleware on the same external storage (memory: ignored)
}

// noStore: the request carries the no-store directive (every other generated Cache-Control value carries no-cache)
func (r Req) noStore() bool { return strings.Contains(strings.ToLower(r.CC), "no-store") }

type Case struct {
	Store        string // memory | vk
	Park         bool   `json:",omitempty"` // schedule policy: the first concurrent request parks inside its origin handler until the others are done
	ParkSerial   bool   `json:",omitempty"` // ... and the others are served one after the other
	MaxBytes     uint
	StoreHeaders bool
	Upstream     bool `json:",omitempty"`
	CacheControl bool
	Methods      []string `json:",omitempty"`
	CustomKey    bool
	UseNext      bool
	Pre          []Req // sequential prefix
	Conc         []Req // concurrent phase (2-4 requests), empty = purely sequential case
	Picks        []int
	Post         []Req // sequential suffix
	Conn         bool  `json:",omitempty"` // the sequential requests re-use one RequestCtx (one keep-alive connection): request and response buffers are recycled
}

type origin struct {
	serial int
	status int
	body   string
	ctype  string
	enc    string
	xh     string
	up     string // what a middleware in front of the cache had put on the response (part of the stored headers)
}

func (o *origin) sig(withHdr bool) string {
	s := fmt.Sprintf("%d|%s|%s|%s|%s", o.status, o.body, o.ctype, o.enc, o.up)
	if withHdr {
		s += "|" + o.xh + "|<" + o.xh + "/a>; rel=\"next\",<" + o.xh + "/b>; rel=\"last\""
	}
	return s
}

func respSig(r *fasthttp.RequestCtx, withHdr bool) string {
	var ups []string
	for _, v := range r.Response.Header.PeekAll("X-Frame-Options") {
		ups = append(ups, string(v))
	}
	s := fmt.Sprintf("%d|%s|%s|%s|%s", r.Response.StatusCode(), r.Response.Body(), r.Response.Header.ContentType(), r.Response.Header.Peek("Content-Encoding"), strings.Join(ups, ","))
	if withHdr {
		var links []string
		for _, v := range r.Response.Header.PeekAll("Link") {
			links = append(links, string(v))
		}
		s += "|" + string(r.Response.Header.Peek("X-Extra")) + "|" + strings.Join(links, ",")
	}
	return s
}

var cacheable = map[int]bool{200: true, 203: true, 204: true, 206: true, 300: true, 301: true, 404: true, 405: true, 410: true, 414: true, 418: true, 501: true}

type world struct {
	cfg       cache.Config
	restarted bool
	conn      *fasthttp.RequestCtx
	c         Case
	app       *fiber.App
	st        *vk.Storage
	sched     *vk.Sched
	ticks     int
	mu        sync.Mutex
	serial    int
	execs     map[string][]*origin // goroutine-safe log of origin executions per request uri
}

func (w *world) uri(r Req) string {
	u := r.Path + "?v=" + r.V
	if r.Inv {
		u += "&inv=1"
	}
	if r.TTL0 {
		u += "&ttl0=1"
	}
	if r.Skip {
		u += "&skip=1"
	}
	return u
}

func (w *world) key(r Req) string {
	k := r.Path
	if w.c.CustomKey {
		k += "#" + r.V
	}
	return k + "_" + r.Method
}

func newWorld(c Case) *world {
	w := &world{c: c, execs: map[string][]*origin{}}
	cfg := cache.Config{MaxBytes: c.MaxBytes, StoreResponseHeaders: c.StoreHeaders, CacheControl: c.CacheControl,
		CacheInvalidator: func(ctx fiber.Ctx) bool { w.sched.Yield("invalidator"); return ctx.Query("inv") == "1" },
		ExpirationGenerator: func(ctx fiber.Ctx, _ *cache.Config) time.Duration {
			w.sched.Yield("expgen")
			if ctx.Query("ttl0") == "1" {
				return 0
			}
			return time.Hour
		}}
	if len(c.Methods) > 0 {
		cfg.Methods = c.Methods
	}
	if c.CustomKey {
		cfg.KeyGenerator = func(ctx fiber.Ctx) string { w.sched.Yield("keygen"); return ctx.Path() + "#" + ctx.Query("v") }
	}
	if c.UseNext {
		cfg.Next = func(ctx fiber.Ctx) bool { return ctx.Query("skip") == "1" }
	}
	if c.Store != "memory" {
		w.st = vk.NewStorage()
		w.st.Retain = c.Store == "vk-retain"
		cfg.Storage = w.st
	}
	w.cfg = cfg
	w.build()
	return w
}

// build creates the application with a new instance of the middleware (the process starts, or restarts: an external
// storage keeps what earlier instances stored in it).
func (w *world) build() {
	c, cfg := w.c, w.cfg
	w.app = fiber.New()
	if c.Upstream {
		// a middleware in front of the cache that sets a response header on every request (helmet, cors, ...)
		w.app.Use(func(ctx fiber.Ctx) error { ctx.Set("X-Frame-Options", "SAMEORIGIN"); return ctx.Next() })
	}
	w.app.Use(cache.New(cfg))
	w.app.All("/*", func(ctx fiber.Ctx) error {
		w.sched.Yield("origin<")
		w.mu.Lock()
		w.serial++
		s := w.serial
		o := &origin{serial: s}
		o.status = []int{200, 200, 200, 404, 500, 201, 204, 301, 200, 418}[s%10]
		o.body = fmt.Sprintf("b%d-%s", s, strings.Repeat("x", (s*7)%40))
		if o.status == 204 {
			o.body = ""
		}
		o.ctype = []string{"text/plain", "application/json", "text/html; charset=utf-8"}[s%3]
		o.enc = []string{"", "", "gzip"}[s%3]
		o.xh = fmt.Sprintf("h%d", s)
		o.up = ctx.GetRespHeader("X-Frame-Options")
		u := string(ctx.Request().RequestURI()) + " " + ctx.Method()
		w.execs[u] = append(w.execs[u], o)
		w.mu.Unlock()
		ctx.Set("Content-Type", o.ctype)
		if o.enc != "" {
			ctx.Set("Content-Encoding", o.enc)
		}
		ctx.Set("X-Extra", o.xh)
		// a header with two values (pagination links, several Vary lines, ...)
		ctx.Response().Header.Add("Link", "<"+o.xh+"/a>; rel=\"next\"")
		ctx.Response().Header.Add("Link", "<"+o.xh+"/b>; rel=\"last\"")
		err := ctx.Status(o.status).SendString(o.body)
		w.sched.Yield("origin>")
		return err
	})
	w.app.Handler()
}

func (w *world) do(r Req) *fasthttp.RequestCtx {
	var hdr []string
	if r.CC != "" {
		for _, line := range strings.Split(r.CC, "\n") { // (a list may come in several field lines)
			hdr = append(hdr, "Cache-Control", line)
		}
	}
	return vk.Do(w.app, r.Method, w.uri(r), hdr...)
}

// doSeq is do for the sequential phases: with Conn the same RequestCtx serves every request, as on one keep-alive
// connection, so whatever still aliases the previous request's or response's buffers changes under its owner.
func (w *world) doSeq(r Req) *fasthttp.RequestCtx {
	if !w.c.Conn {
		return w.do(r)
	}
	if w.conn == nil {
		w.conn = &fasthttp.RequestCtx{}
	}
	ctx := w.conn
	var req fasthttp.Request
	req.Header.SetMethod(r.Method)
	req.SetRequestURI(w.uri(r))
	if r.CC != "" {
		for _, line := range strings.Split(r.CC, "\n") {
			req.Header.Add("Cache-Control", line)
		}
	}
	ctx.Response.Reset() // keeps the body buffer, as the server does between two requests of a connection
	ctx.ResetUserValues()
	ctx.Init(&req, &net.TCPAddr{IP: net.IPv4(10, 0, 0, 9), Port: 1234}, nil)
	w.app.Handler()(ctx)
	return ctx
}

func (w *world) execCount(r Req) int {
	w.mu.Lock()
	defer w.mu.Unlock()
	return len(w.execs[w.uri(r)+" "+r.Method])
}

func (w *world) lastExec(r Req) *origin {
	w.mu.Lock()
	defer w.mu.Unlock()
	e := w.execs[w.uri(r)+" "+r.Method]
	return e[len(e)-1]
}

func (w *world) methodCached(m string) bool {
	ms := w.c.Methods
	if len(ms) == 0 {
		ms = []string{"GET", "HEAD"}
	}
	for _, x := range ms {
		if x == m {
			return true
		}
	}
	return false
}

func (w *world) bytesHeld() int {
	if w.st == nil {
		return 0
	}
	return w.st.Bytes(func(k string) bool { return strings.HasSuffix(k, "_body") })
}

// model: per cache key the set of origin executions that may currently be stored and live (a singleton after every
// sequential step; a superset after a concurrent phase). Hits are optional, so eviction can never cause an alarm.
type model struct {
	live map[string][]*origin
	info struct{ hits, hitsAfterChange, changes int }
}

func (m *model) seqStep(w *world, r Req, i int, phase string) string {
	if r.Restart {
		if w.st != nil {
			w.build()
			w.restarted = true
		}
		return ""
	}
	if r.Tick {
		if w.ticks < 5 { // (at most 50 minutes in all)
			w.ticks++
			vk.Advance(600)
		}
		return ""
	}
	before := w.execCount(r)
	type res struct{ ctx *fasthttp.RequestCtx }
	ch := make(chan res, 1)
	var pan any
	go func() {
		defer func() {
			if p := recover(); p != nil {
				pan = p
				ch <- res{nil}
			}
		}()
		ch <- res{w.doSeq(r)}
	}()
	var resp *fasthttp.RequestCtx
	select {
	case x := <-ch:
		resp = x.ctx
	case <-time.After(10 * time.Second):
		return fmt.Sprintf("%s step %d %+v: request did not return within 10 s (deadlock)", phase, i, r)
	}
	if resp == nil {
		return fmt.Sprintf("%s step %d %+v: panic: %v", phase, i, r, pan)
	}
	ran := w.execCount(r) > before
	xc := string(resp.Response.Header.Peek("X-Cache"))
	k := w.key(r)
	ctx := fmt.Sprintf("%s step %d %+v (X-Cache=%q status=%d)", phase, i, r, xc, resp.Response.StatusCode())
	if xc == "hit" {
		m.info.hits++
		if ran {
			return ctx + ": served as hit but the origin handler ran as well"
		}
		if r.CC != "" {
			return ctx + ": a " + r.CC + " request was served from the cache"
		}
		if !w.methodCached(r.Method) {
			return ctx + ": hit for a method that is not configured"
		}
		if r.Inv {
			return ctx + ": hit although the invalidator asked to drop the entry"
		}
		got := respSig(resp, w.c.StoreHeaders)
		ok := false
		for _, o := range m.live[k] {
			if o.sig(w.c.StoreHeaders) == got {
				ok = true
			}
		}
		if !ok {
			var cands []string
			for _, o := range m.live[k] {
				cands = append(cands, o.sig(w.c.StoreHeaders))
			}
			return fmt.Sprintf("%s: hit %q is not what a live stored origin response for key %s looks like (live candidates: %q)", ctx, got, k, cands)
		}
		if m.info.changes > 0 {
			m.info.hitsAfterChange++
		}
		return ""
	}
	if !ran {
		return ctx + ": not a hit but the origin handler did not run"
	}
	cur := w.lastExec(r)
	if r.noStore() {
		return "" // bypasses the cache entirely: nothing dropped, nothing stored
	}
	if !w.methodCached(r.Method) {
		return ""
	}
	// the stored entry (if any) was not served: invalidated / expired at once / no-cache / evicted
	if len(m.live[k]) > 0 && r.Inv {
		m.live[k] = nil
		m.info.changes++
	}
	if cacheable[cur.status] && !r.Skip {
		if r.TTL0 {
			m.live[k] = nil // expires at once: may never be served
			m.info.changes++
		} else {
			m.live[k] = []*origin{cur}
		}
	}
	// non-cacheable status or skipped by Next: whatever was live may stay
	return ""
}

func check(c Case) vk.Verdict {
	w := newWorld(c)
	m := &model{live: map[string][]*origin{}}
	v := vk.Verdict{Classes: []string{"store:" + c.Store}}
	bound := func(where string) string {
		// (after a restart the new instance counts from zero: what earlier instances left in the storage is not its account)
		if c.Store != "memory" && c.MaxBytes > 0 && !w.restarted {
			if b := w.bytesHeld(); uint(b) > c.MaxBytes {
				return fmt.Sprintf("%s: %d body bytes held in the storage, MaxBytes is %d (keys %v)", where, b, c.MaxBytes, w.st.Keys())
			}
		}
		return ""
	}
	for i, r := range c.Pre {
		if msg := m.seqStep(w, r, i, "pre"); msg != "" {
			return vk.Failf("%s", msg)
		}
		if msg := bound(fmt.Sprintf("after pre step %d", i)); msg != "" {
			return vk.Failf("%s", msg)
		}
	}
	sameExpired := false
	if len(c.Conc) > 0 {
		// which keys hold an entry that is stored but expired-at-once? (NT rule)
		s := vk.NewSched()
		w.sched = s
		if w.st != nil {
			w.st.Sched = s
		}
		keys := map[string]int{}
		for _, r := range c.Conc {
			keys[w.key(r)]++
		}
		for _, n := range keys {
			if n >= 2 {
				sameExpired = true
			}
		}
		resps := make([]*fasthttp.RequestCtx, len(c.Conc))
		for g, r := range c.Conc {
			g, r := g, r
			s.Spawn(g, func() { resps[g] = w.do(r) })
		}
		pi := 0
		nextPick := func() int {
			p := 0
			if pi < len(c.Picks) {
				p = c.Picks[pi]
			}
			pi++
			return p
		}
		parkedAtOrigin, seenEvents := false, 0
		res := s.Run(len(c.Conc), func(ready []int) int {
			if !c.Park {
				return nextPick()
			}
			// policy "park": the first request runs until it is inside its origin handler, stays there while the
			// others are served (in the order the picks say), and completes last
			for ; seenEvents < len(s.Trace); seenEvents++ {
				if s.Trace[seenEvents] == "0@origin<" {
					parkedAtOrigin = true
				}
			}
			idx0 := -1
			var others []int
			for i, g := range ready {
				if g == 0 {
					idx0 = i
				} else {
					others = append(others, i)
				}
			}
			if idx0 >= 0 && (!parkedAtOrigin || len(others) == 0) {
				return idx0
			}
			if len(others) == 0 {
				return 0
			}
			if c.ParkSerial {
				return others[0] // one after the other
			}
			return others[nextPick()%len(others)]
		})
		w.sched = nil
		if w.st != nil {
			w.st.Sched = nil
		}
		if len(res.Panics) > 0 {
			return vk.Failf("concurrent phase %+v: %s\nschedule: %v", c.Conc, res.Panics[0], s.Trace)
		}
		if res.Deadlock {
			return vk.Failf("concurrent phase %+v: deadlock (tasks %v never finished)\nschedule: %v", c.Conc, res.Stuck, s.Trace)
		}
		// transparency of hits in the phase: equal to SOME origin execution for that key (before or during the phase)
		for g, r := range c.Conc {
			resp := resps[g]
			if resp == nil || string(resp.Response.Header.Peek("X-Cache")) != "hit" {
				continue
			}
			if r.CC != "" || !w.methodCached(r.Method) {
				return vk.Failf("concurrent phase: request %+v was served from the cache", r)
			}
			got := respSig(resp, c.StoreHeaders)
			ok := false
			for _, o := range m.live[w.key(r)] {
				if o.sig(c.StoreHeaders) == got {
					ok = true
				}
			}
			w.mu.Lock()
			for u, os := range w.execs {
				for _, o := range os {
					_ = u
					if o.sig(c.StoreHeaders) == got {
						ok = true
					}
				}
			}
			w.mu.Unlock()
			if !ok {
				return vk.Failf("concurrent phase: hit %q for %+v equals no origin response\nschedule: %v", got, r, s.Trace)
			}
		}
		// after the phase every cacheable execution of the phase may be the live entry of its key
		for _, r := range c.Conc {
			if !w.methodCached(r.Method) || r.noStore() {
				continue
			}
			k := w.key(r)
			w.mu.Lock()
			for _, o := range w.execs[w.uri(r)+" "+r.Method] {
				if cacheable[o.status] {
					m.live[k] = append(m.live[k], o)
				}
			}
			w.mu.Unlock()
		}
		m.info.changes++
		if msg := bound("after the concurrent phase"); msg != "" {
			return vk.Failf("%s\nschedule: %v", msg, s.Trace)
		}
		v.Classes = append(v.Classes, "concurrent")
		if res.Blocked > 0 {
			v.Classes = append(v.Classes, "mutex-blocked-steps")
		}
	}
	for i, r := range c.Post {
		if msg := m.seqStep(w, r, i, "post"); msg != "" {
			return vk.Failf("%s", msg)
		}
		if msg := bound(fmt.Sprintf("after post step %d", i)); msg != "" {
			return vk.Failf("%s", msg)
		}
	}
	v.NonTrivial = m.info.hitsAfterChange > 0 || sameExpired
	if m.info.hits > 0 {
		v.Classes = append(v.Classes, "has-hit")
	}
	if c.MaxBytes > 0 {
		v.Classes = append(v.Classes, "maxbytes")
	}
	return v
}

// ---- generator ------------------------------------------------------------------------------------------

func genReq(t *rapid.T, c Case) Req {
	r := Req{Method: rapid.SampledFrom([]string{"GET", "GET", "GET", "HEAD", "POST"}).Draw(t, "m"),
		Path: rapid.SampledFrom([]string{"/a", "/b", "/c", "/a", "/b",
			// paths that end like the suffixes the middleware appends to its storage keys (method, "_body")
			"/a_HEAD", "/a_body", "/a_GET"}).Draw(t, "p"), V: rapid.SampledFrom([]string{"1", "1", "2"}).Draw(t, "v"),
		CC: rapid.SampledFrom([]string{"", "", "", "", "", "", "", "", "no-cache", "no-cache", "no-store", "no-store",
			// directive names are case-insensitive, and a list needs no blank after the comma (RFC 9111 5.2, RFC 9110 5.6.1)
			"No-Cache", "NO-STORE", "max-age=0,no-cache", "no-cache,no-store", "max-age=0, no-store",
			// ... and the members of the list may arrive in several field lines (RFC 9110 5.3)
			"max-age=0\nno-store", "max-stale=5\nno-cache"}).Draw(t, "cc"),
		Inv: rapid.IntRange(0, 5).Draw(t, "inv") == 0, TTL0: rapid.IntRange(0, 3).Draw(t, "ttl0") == 0}
	if c.UseNext {
		r.Skip = rapid.IntRange(0, 4).Draw(t, "skip") == 0
	}
	if rapid.IntRange(0, 9).Draw(t, "tick") == 0 {
		r = Req{Tick: true}
	}
	if c.Store != "memory" && rapid.IntRange(0, 11).Draw(t, "restart") == 0 {
		r = Req{Restart: true}
	}
	return r
}

// genPicks draws a schedule: either a fine-grained one (a fresh choice at every step) or one made of stretches (one
// task keeps running for 1-15 steps), which reaches "A parks in its handler while B and C run to completion"
func genPicks(t *rapid.T, maxIdx int) []int {
	if rapid.Bool().Draw(t, "finegrained") {
		return rapid.SliceOfN(rapid.IntRange(0, maxIdx), 0, 60).Draw(t, "picks")
	}
	var out []int
	n := rapid.IntRange(1, 10).Draw(t, "stretches")
	for i := 0; i < n; i++ {
		who := rapid.IntRange(0, maxIdx).Draw(t, "who")
		k := rapid.IntRange(1, 15).Draw(t, "steps")
		for j := 0; j < k; j++ {
			out = append(out, who)
		}
	}
	return out
}

func genCase(t *rapid.T, conc bool) Case {
	c := Case{Store: rapid.SampledFrom([]string{"memory", "vk", "vk-retain"}).Draw(t, "store"), MaxBytes: rapid.SampledFrom([]uint{0, 50, 100, 200, 400}).Draw(t, "maxbytes"),
		StoreHeaders: rapid.Bool().Draw(t, "storehdr"), Upstream: rapid.Bool().Draw(t, "upstream"), CacheControl: rapid.Bool().Draw(t, "cachecontrol"), CustomKey: rapid.Bool().Draw(t, "customkey"),
		UseNext: rapid.IntRange(0, 4).Draw(t, "usenext") == 0, Conn: rapid.IntRange(0, 2).Draw(t, "conn") == 0}
	switch rapid.IntRange(0, 3).Draw(t, "methods") {
	case 0:
		c.Methods = []string{"GET"}
	case 1:
		c.Methods = []string{"GET", "POST"}
	}
	n := rapid.IntRange(0, 20).Draw(t, "npre")
	if conc {
		n = rapid.IntRange(0, 5).Draw(t, "npre")
	}
	for i := 0; i < n; i++ {
		c.Pre = append(c.Pre, genReq(t, c))
	}
	if conc && rapid.IntRange(0, 2).Draw(t, "refreshrace") == 0 {
		// biased shape: a no-cache refresh of a cached key runs while other requests fill a small cache (evictions and
		// new entries happen between the refresh's lookup and its store); an external store so that the bytes held are
		// observable
		c.Store, c.MaxBytes, c.UseNext = rapid.SampledFrom([]string{"vk", "vk-retain"}).Draw(t, "rstore"), rapid.SampledFrom([]uint{50, 100}).Draw(t, "rmax"), false
		c.Pre = nil
		keys := [][2]string{{"/a", "1"}, {"/b", "1"}, {"/c", "1"}, {"/a", "2"}, {"/b", "2"}, {"/c", "2"}}
		np := rapid.IntRange(1, 3).Draw(t, "rpre")
		for i := 0; i < np; i++ {
			c.Pre = append(c.Pre, Req{Method: "GET", Path: keys[i][0], V: keys[i][1]})
		}
		victim := rapid.IntRange(0, np-1).Draw(t, "victim")
		c.Conc = append(c.Conc, Req{Method: "GET", Path: keys[victim][0], V: keys[victim][1], CC: "no-cache"})
		no := rapid.IntRange(2, 4).Draw(t, "rothers")
		for i := 0; i < no; i++ {
			k := keys[rapid.IntRange(0, len(keys)-1).Draw(t, "rk")]
			c.Conc = append(c.Conc, Req{Method: "GET", Path: k[0], V: k[1]})
		}
		c.Picks = genPicks(t, 4)
		c.Park = rapid.Bool().Draw(t, "park")
		c.ParkSerial = c.Park && rapid.Bool().Draw(t, "parkserial")
		npost := rapid.IntRange(2, 7).Draw(t, "npost")
		for i := 0; i < npost; i++ {
			c.Post = append(c.Post, genReq(t, c))
		}
		return c
	}
	if conc {
		ng := rapid.IntRange(2, 4).Draw(t, "ng")
		for i := 0; i < ng; i++ {
			r := genReq(t, c)
			if r.Tick || r.Restart {
				r = Req{Method: "GET", Path: "/a", V: "1"} // (time passes between requests, not inside the concurrent phase)
			}
			if rapid.Bool().Draw(t, "samekey") && len(c.Conc) > 0 {
				r.Path, r.V, r.Method = c.Conc[0].Path, c.Conc[0].V, c.Conc[0].Method
			}
			c.Conc = append(c.Conc, r)
		}
		c.Picks = genPicks(t, 3)
		c.Park = rapid.IntRange(0, 2).Draw(t, "park") == 0
		c.ParkSerial = c.Park && rapid.Bool().Draw(t, "parkserial")
		np := rapid.IntRange(2, 7).Draw(t, "npost")
		for i := 0; i < np; i++ {
			c.Post = append(c.Post, genReq(t, c))
		}
	}
	return c
}

var propSeq = vk.Register(&vk.Prop[Case]{Property: property, Name: "history", Check: check, Classify: classify, Quick: 8000, Thorough: 12000,
	Gen: func(t *rapid.T) Case { return genCase(t, false) }})

var propConc = vk.Register(&vk.Prop[Case]{Property: property, Name: "schedule", Check: check, Classify: classify, Quick: 3000, Thorough: 9000,
	Gen: func(t *rapid.T) Case { return genCase(t, true) }})

func TestHistory(t *testing.T)  { propSeq.Run(t) }
func TestSchedule(t *testing.T) { propConc.Run(t) }

func classify(c Case, fail string) string { return "" }

// ---- the byte account stays exact -------------------------------------------------------------------------------------
//
// Four keys, every origin response exactly ten bytes long, MaxBytes 40: whatever happens, the cache never holds more
// than it may, so it never has a reason to drop an entry. Plain requests, no-cache refreshes of a stored key and pairs of
// requests that miss the same key at the same time (the first is parked in its origin handler while the second runs to
// completion) follow each other. Oracle: once a key has been stored, every later plain request for it is a hit carrying
// the body of the key's latest origin execution. An entry that is gone means the middleware counted bytes it does not
// hold (a record left behind for a key that was stored again) and evicted to make room for them.

type AccOp struct {
	Key     int
	NoCache bool `json:",omitempty"`
	Pair    bool `json:",omitempty"` // two requests for the key at the same time, both missing
	Drop    bool `json:",omitempty"` // no request: the storage drops what it holds (its own clock passes the TTL of every item - the cache's clock has not moved)
}

type AccCase struct {
	Store string // memory | vk
	Ops   []AccOp
}

func checkAcc(c AccCase) vk.Verdict {
	var st *vk.Storage
	cfg := cache.Config{MaxBytes: 40, Expiration: time.Hour}
	if c.Store != "memory" {
		st = vk.NewStorage()
		cfg.Storage = st
	}
	var sched *vk.Sched
	var mu sync.Mutex
	serial := 0
	// allowed: the bodies a hit for the key may carry - the key's latest origin response; after two requests missed the key
	// together, either of their two responses (which of them is stored last is up to the middleware)
	allowed := map[int]map[string]bool{}
	inPair := false
	app := fiber.New()
	app.Use(cache.New(cfg))
	app.Get("/k/:key", func(ctx fiber.Ctx) error {
		sched.Yield("origin<")
		mu.Lock()
		serial++
		body := fmt.Sprintf("%s:%08d", ctx.Params("key"), serial) // 1 + 1 + 8 bytes
		k, _ := strconv.Atoi(ctx.Params("key"))
		if !inPair || allowed[k] == nil {
			allowed[k] = map[string]bool{}
		}
		allowed[k][body] = true
		mu.Unlock()
		return ctx.SendString(body)
	})
	app.Handler()
	do := func(op AccOp) *fasthttp.RequestCtx {
		var hdr []string
		if op.NoCache {
			hdr = []string{"Cache-Control", "no-cache"}
		}
		return vk.Do(app, "GET", fmt.Sprintf("/k/%d", op.Key), hdr...)
	}
	stored := map[int]bool{}
	v := vk.Verdict{Classes: []string{"store:" + c.Store}}
	refreshed, paired := false, false
	for i, op := range c.Ops {
		if op.Drop {
			// a storage may let go of an item at any time (its own TTL clock, eviction under memory pressure): the
			// keys are simply not stored any more; what is stored afterwards must stay
			vk.Advance(2 * 3600)
			for k := range stored {
				delete(stored, k)
			}
			v.Classes = append(v.Classes, "storage-dropped-its-items")
			continue
		}
		if op.Pair {
			if stored[op.Key] {
				continue // (both must miss: only for a key that is not stored yet)
			}
			s := vk.NewSched()
			sched = s
			inPair = true
			delete(allowed, op.Key)
			for g := 0; g < 2; g++ {
				s.Spawn(g, func() { do(AccOp{Key: op.Key}) })
			}
			parked := false
			res := s.Run(2, func(ready []int) int {
				// task 0 runs until it is inside its origin handler, then task 1 runs to completion, then task 0
				for _, e := range s.Trace {
					if e == "0@origin<" {
						parked = true
					}
				}
				if parked && len(ready) == 2 {
					return 1
				}
				return 0
			})
			sched = nil
			inPair = false
			if len(res.Panics) > 0 || res.Deadlock {
				return vk.Failf("op %d %+v: panics %v deadlock %v", i, op, res.Panics, res.Deadlock)
			}
			stored[op.Key] = true
			paired = true
			continue
		}
		resp := do(op)
		xc := string(resp.Response.Header.Peek("X-Cache"))
		body := string(resp.Response.Body())
		if !op.NoCache && stored[op.Key] {
			if xc != "hit" {
				held := 0
				for k := range stored {
					if stored[k] {
						held += 10
					}
				}
				return vk.Failf("op %d %+v: the key was stored before, never expired or invalidated, and at most %d of the 40 bytes allowed are held - yet the request was not served from the cache (X-Cache=%q, body %q); history %+v", i, op, held, xc, body, c.Ops[:i+1])
			}
			v.NonTrivial = v.NonTrivial || refreshed || paired
		}
		if !allowed[op.Key][body] {
			return vk.Failf("op %d %+v: body %q, the key's latest origin response(s): %v (X-Cache=%q)", i, op, body, allowed[op.Key], xc)
		}
		if xc != "hit" {
			allowed[op.Key] = map[string]bool{body: true} // stored anew: from now on this one
		}
		if op.NoCache && stored[op.Key] {
			refreshed = true
		}
		stored[op.Key] = true
		if st != nil {
			if b := st.Bytes(func(k string) bool { return strings.HasSuffix(k, "_body") }); b > 40 {
				return vk.Failf("op %d %+v: %d body bytes held, MaxBytes is 40", i, op, b)
			}
		}
	}
	if refreshed {
		v.Classes = append(v.Classes, "no-cache-refresh-of-a-stored-key")
	}
	if paired {
		v.Classes = append(v.Classes, "two-requests-missed-one-key-together")
	}
	return v
}

func genAcc(t *rapid.T) AccCase {
	c := AccCase{Store: rapid.SampledFrom([]string{"memory", "vk"}).Draw(t, "store")}
	n := rapid.IntRange(2, 24).Draw(t, "nops")
	for i := 0; i < n; i++ {
		if rapid.IntRange(0, 9).Draw(t, "drop") == 0 {
			c.Ops = append(c.Ops, AccOp{Drop: true})
			continue
		}
		c.Ops = append(c.Ops, AccOp{Key: rapid.IntRange(0, 3).Draw(t, "key"), NoCache: rapid.IntRange(0, 3).Draw(t, "nocache") == 0, Pair: rapid.IntRange(0, 7).Draw(t, "pair") == 0})
	}
	return c
}

var propAcc = vk.Register(&vk.Prop[AccCase]{Property: property, Name: "account", Gen: genAcc, Check: checkAcc, Quick: 1500, Thorough: 6000})

func TestAccount(t *testing.T) { propAcc.Run(t) }
