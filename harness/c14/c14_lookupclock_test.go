package c14

import (
	"flag"
	"fmt"
	"sync/atomic"
	"testing"
	"time"

	"github.com/gofiber/fiber/v3"
	"github.com/gofiber/fiber/v3/middleware/cache"
	"github.com/valyala/fasthttp"
	"pgregory.net/rapid"

	"verifharness/vk"
)

// ---- "never served after its expiration": the instant that counts is the instant of the lookup ----------------------
//
// The middleware's clock is the real one (a closure variable), so this runs in real time. Request A is held up inside
// the KeyGenerator callback (a slow lookup); meanwhile request B misses, runs the origin and stores the entry with an
// expiration of one second; A is let go well after that second. The storage keeps items regardless of their TTL (a
// backend that expires by sweeping, or not at all), so only the middleware's own expiry check stands between A and the
// old entry. A must not be answered from it. Sleeping longer than planned (busy machine) only makes the entry older.

type LookupCase struct {
	ExtraMs int // waited beyond 2.3 s
}

func checkLookupClock(c LookupCase) vk.Verdict {
	st := vk.NewStorage()
	st.NoTTL = true
	entered := make(chan struct{}, 1)
	release := make(chan struct{})
	var serial atomic.Int64
	app := fiber.New()
	app.Use(cache.New(cache.Config{Expiration: time.Second, Storage: st, KeyGenerator: func(ctx fiber.Ctx) string {
		if ctx.Query("hold") == "1" {
			entered <- struct{}{}
			<-release
		}
		return ctx.Path()
	}}))
	app.Get("/x", func(ctx fiber.Ctx) error { return ctx.SendString(fmt.Sprintf("v%d", serial.Add(1))) })
	app.Handler()
	done := make(chan *fasthttp.RequestCtx, 1)
	go func() { done <- vk.Do(app, "GET", "/x?hold=1") }()
	select {
	case <-entered:
	case <-time.After(10 * time.Second):
		return vk.Failf("request A never reached the key generator")
	}
	b := vk.Do(app, "GET", "/x")
	if xc := string(b.Response.Header.Peek("X-Cache")); xc != "miss" || string(b.Response.Body()) != "v1" {
		return vk.Failf("request B (nothing stored yet): X-Cache=%q body %q, want a miss with v1", xc, b.Response.Body())
	}
	time.Sleep(2300*time.Millisecond + time.Duration(c.ExtraMs)*time.Millisecond)
	close(release)
	var a *fasthttp.RequestCtx
	select {
	case a = <-done:
	case <-time.After(20 * time.Second):
		return vk.Failf("request A did not finish")
	}
	xc, body := string(a.Response.Header.Peek("X-Cache")), string(a.Response.Body())
	if xc == "hit" || body == "v1" {
		return vk.Failf("LOOKUP-CLOCK request A looked the key up more than two seconds after request B had stored the entry (expiration 1 s; A had entered the middleware before B and was held up in the key generator): it was answered from the cache (X-Cache=%q, body %q)", xc, body)
	}
	return vk.Verdict{NonTrivial: true, Classes: []string{"lookup-after-expiry-by-a-request-that-entered-before-the-store"}}
}

var propLookup = vk.Register(&vk.Prop[LookupCase]{Property: property, Name: "lookupclock", Check: checkLookupClock, Quick: 2, Thorough: 8,
	Gen: func(t *rapid.T) LookupCase { return LookupCase{ExtraMs: rapid.IntRange(0, 700).Draw(t, "extra")} }})

func TestLookupClock(t *testing.T) {
	_ = flag.Set("rapid.shrinktime", "1ns") // cases run in real time: no minimisation
	defer func() { _ = flag.Set("rapid.shrinktime", "30s") }()
	propLookup.Run(t)
}
