package c03

import (
	"testing"

	"verifharness/vk"
)

const property = "C03"

func TestMain(m *testing.M) { vk.Main(m, property) }

func TestAAACorpus(t *testing.T)    { vk.TestCorpus(t, property) }
func TestAAAWitnesses(t *testing.T) { vk.TestWitnesses(t, property) }
func TestReplay(t *testing.T)       { vk.TestReplay(t) }
