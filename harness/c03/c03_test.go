package c03

import (
	"fmt"
	"hash/fnv"
	"net/url"
	"strings"
	"sync"
	"sync/atomic"
	"testing"
	"time"

	"github.com/gofiber/fiber/v3"
	"pgregory.net/rapid"

	"verifharness/vk"
)

// Case: one (config, pattern, request path) triple. Expect == "match": the statement says the route matches and
// Params returns Want. Expect == "any": only the RoutePatternMatch == dispatch differential is decided.
type Case struct {
	CS, Strict, Unesc bool
	Pattern           string
	Path              string // request path as sent (already in wire form)
	Expect            string
	Want              []string
	TailTol           bool   // pattern ends with a greedy parameter and routing is not strict: the request's trailing slash may or may not belong to the value
	Variant           string // base | case | addslash | pct | noise
	Slashless         bool   `json:",omitempty"` // shape of repaired finding C03-d (see admissible)
}

type routeApp struct {
	app    *fiber.App
	hit    bool
	got    []string
	byName string // "" or a description of a value that differs when it is read by its documented name
}

// docNames lists the documented names of the pattern's parameters in order: the name behind ':' and "*1", "*2", ... /
// "+1", "+2", ... for the wildcards (escaped characters are literals)
func docNames(pattern string) []string {
	var out []string
	star, plus := 0, 0
	for i := 0; i < len(pattern); i++ {
		switch pattern[i] {
		case '\\':
			i++
		case '*':
			star++
			out = append(out, fmt.Sprintf("*%d", star))
		case '+':
			plus++
			out = append(out, fmt.Sprintf("+%d", plus))
		case ':':
			j := i + 1
			for j < len(pattern) && (pattern[j] == '_' || pattern[j] >= '0' && pattern[j] <= '9' || pattern[j] >= 'a' && pattern[j] <= 'z' || pattern[j] >= 'A' && pattern[j] <= 'Z') {
				j++
			}
			out = append(out, pattern[i+1:j])
			i = j - 1
		}
	}
	return out
}

func newRouteApp(cfg fiber.Config, pattern string) (ra *routeApp, err error) {
	defer func() {
		if r := recover(); r != nil {
			err = fmt.Errorf("registration panicked: %v", r)
		}
	}()
	ra = &routeApp{app: fiber.New(cfg)}
	names := docNames(pattern)
	ra.app.Get(pattern, func(c fiber.Ctx) error {
		ra.hit = true
		ra.got = ra.got[:0]
		for _, n := range c.Route().Params {
			ra.got = append(ra.got, strings.Clone(c.Params(n)))
		}
		// the same values read by their documented names (the first wildcard of a kind also answers to the bare character)
		ra.byName = ""
		for i, n := range names {
			if i >= len(ra.got) {
				break
			}
			alt := []string{n}
			if n == "*1" || n == "+1" {
				alt = append(alt, n[:1])
			}
			for _, name := range alt {
				if v := c.Params(name); v != ra.got[i] {
					ra.byName = fmt.Sprintf("Params(%q) = %q, the value of that parameter is %q", name, v, ra.got[i])
				}
			}
		}
		return nil
	})
	ra.app.Handler()
	return ra, nil
}

func (c Case) cfg() fiber.Config {
	return fiber.Config{CaseSensitive: c.CS, StrictRouting: c.Strict, UnescapePath: c.Unesc}
}

func pctDecode(s string) string {
	if !strings.Contains(s, "%") {
		return s
	}
	d, err := url.PathUnescape(s)
	if err != nil {
		return s
	}
	return d
}

// hung: a dispatch did not return; its goroutine keeps a core busy, so nothing further is explored in this process
var hung atomic.Bool

func checkOn(ra *routeApp, c Case) vk.Verdict {
	if hung.Load() {
		return vk.Verdict{Skip: true}
	}
	ra.hit = false
	ra.got = ra.got[:0]
	done := make(chan struct{})
	go func() {
		defer close(done)
		vk.Do(ra.app, "GET", c.Path)
	}()
	select {
	case <-done:
	case <-time.After(5 * time.Second):
		hung.Store(true)
		return vk.Failf("pattern %q (cs=%v strict=%v unesc=%v): dispatching the path %q did not return within 5 s", c.Pattern, c.CS, c.Strict, c.Unesc, c.Path)
	}
	v := vk.Verdict{Classes: []string{"variant:" + c.Variant}}
	if c.Slashless {
		v.Classes = append(v.Classes, "slash-less literal text behind a greedy parameter (C03-d shape)")
	}
	if ra.hit && ra.byName != "" {
		return vk.Failf("pattern %q (cs=%v strict=%v unesc=%v) path %q: %s", c.Pattern, c.CS, c.Strict, c.Unesc, c.Path, ra.byName)
	}
	if c.Expect == "match" {
		if !ra.hit {
			return vk.Failf("pattern %q (cs=%v strict=%v unesc=%v) must match path %q with values %q but the handler did not run",
				c.Pattern, c.CS, c.Strict, c.Unesc, c.Path, c.Want)
		}
		ok := len(ra.got) == len(c.Want)
		if ok {
			for i := range c.Want {
				if ra.got[i] == c.Want[i] {
					continue
				}
				if c.TailTol && i == len(c.Want)-1 &&
					(ra.got[i] == c.Want[i]+"/" || ra.got[i]+"/" == c.Want[i]) {
					continue
				}
				ok = false
			}
		}
		if !ok {
			return vk.Failf("pattern %q (cs=%v strict=%v unesc=%v) path %q: Params = %q, want %q",
				c.Pattern, c.CS, c.Strict, c.Unesc, c.Path, ra.got, c.Want)
		}
		np := len(c.Want)
		v.NonTrivial = np >= 2 || c.Variant != "base" || greedyThenLiteral(c.Pattern)
	} else {
		v.NonTrivial = ra.hit // a noise path is interesting when the pattern happens to match it
	}
	p := c.Path // as it is sent: the configuration handed to RoutePatternMatch says whether it is to be percent-decoded
	rpm := fiber.RoutePatternMatch(p, c.Pattern, c.cfg())
	if rpm != ra.hit {
		return vk.Failf("RoutePatternMatch(%q, %q, cs=%v strict=%v) = %v but dispatching %q to an app holding only that route ran the handler: %v",
			p, c.Pattern, c.CS, c.Strict, rpm, c.Path, ra.hit)
	}
	if ra.hit {
		v.Classes = append(v.Classes, "hit")
	} else {
		v.Classes = append(v.Classes, "miss")
	}
	return v
}

func greedyThenLiteral(p string) bool {
	for i := 0; i+1 < len(p); i++ {
		if (p[i] == '*' || p[i] == '+') && (i == 0 || p[i-1] != '\\') {
			return true
		}
	}
	return false
}

func check(c Case) vk.Verdict {
	if strings.ContainsAny(c.Path, "?#") || c.Path == "" || c.Path[0] != '/' {
		return vk.Verdict{Skip: true}
	}
	ra, err := newRouteApp(c.cfg(), c.Pattern)
	if err != nil {
		return vk.Failf("pattern %q: %v", c.Pattern, err)
	}
	return checkOn(ra, c)
}

// ---------------------------------------------------------------------------------------------------------
// exhaustive part

type tok struct {
	Lit  string
	Kind byte // 0 literal, ':' named, '?' optional named, '*', '+'
	Name string
}

func (t tok) src() string {
	switch t.Kind {
	case 0:
		return t.Lit
	case ':':
		return ":" + t.Name
	case '?':
		return ":" + t.Name + "?"
	default:
		return string(t.Kind)
	}
}

var exLits = []string{"/", "/a", "/ab", "/abc", "/a/", "/a-", "-", ".", "-a", ".a", "/A", "-a/", "//"}

func enumPatterns(maxTok int, emit func([]tok)) {
	var rec func(cur []tok)
	rec = func(cur []tok) {
		if len(cur) > 0 {
			emit(append([]tok(nil), cur...))
		}
		if len(cur) == maxTok {
			return
		}
		lastParam := len(cur) > 0 && cur[len(cur)-1].Kind != 0
		if len(cur) == 0 || lastParam {
			for _, l := range exLits {
				if len(cur) == 0 && l[0] != '/' {
					continue
				}
				rec(append(cur, tok{Lit: l}))
			}
		}
		if len(cur) > 0 && !lastParam {
			for _, k := range []byte{':', '?', '*', '+'} {
				rec(append(cur, tok{Kind: k, Name: fmt.Sprintf("p%d", len(cur))}))
			}
		}
	}
	rec(nil)
}

func swapCase(s string) string {
	b := []byte(s)
	for i, c := range b {
		if c >= 'a' && c <= 'z' {
			b[i] = c - 32
		} else if c >= 'A' && c <= 'Z' {
			b[i] = c + 32
		}
	}
	return string(b)
}

func pool(kind byte) []string {
	switch kind {
	case ':':
		return []string{"x", "xy", "X", "-ab"} // "-ab": a look-alike of the literals "-a" / "-a/" (their text followed by another character)
	case '?':
		return []string{"", "x", "xy", "X", "-ab"}
	case '*':
		return []string{"", "x", "x/y", "xy", "/"}
	default:
		return []string{"x", "x/y", "xy", "/"}
	}
}

// admissible implements the statement's rule: the filled path creates no additional occurrence of a literal that
// follows a parameter (compared under the configured case folding).
//
// slashless reports the shape of (repaired) finding C03-d: behind a greedy parameter, the slash-less spelling of a literal
// whose trailing slash the pattern makes optional occurs additionally in the path, but not as that spelling (it is
// followed by something other than a slash: "/ab" for the literal "/a/"). The statement admits such a path.
func admissible(toks []tok, vals []string, cs, strict bool) (path string, ok bool, slashless bool) {
	var pb, skel strings.Builder
	vi := 0
	for _, t := range toks {
		if t.Kind == 0 {
			pb.WriteString(t.Lit)
			skel.WriteString(t.Lit)
		} else {
			pb.WriteString(vals[vi])
			skel.WriteByte(0)
			vi++
		}
	}
	path = pb.String()

	fold := func(s string) string {
		if cs {
			return s
		}
		return strings.ToLower(s)
	}
	// the folded path, built token by token, with the owner of every byte: the index of the literal token it comes from,
	// or -1 for a byte of a value. An occurrence of a literal is the literal's own ("native") when all its bytes come from
	// one literal token; every other occurrence is an additional one, created by the values (also by empty ones, which
	// let the neighbouring literals touch).
	var fpb strings.Builder
	var owner []int
	vi = 0
	for k, t := range toks {
		piece, own := "", -1
		if t.Kind == 0 {
			piece, own = fold(t.Lit), k
		} else {
			piece = fold(vals[vi])
			vi++
		}
		fpb.WriteString(piece)
		for range len(piece) {
			owner = append(owner, own)
		}
	}
	fp := fpb.String()
	// additional(s, sub, bounded): does sub occur in s (a prefix of fp) other than inside one literal token? bounded: only
	// occurrences that end the path or stand in front of a slash count
	additional := func(s, sub string, bounded bool) bool {
		if sub == "" {
			return false
		}
		for i := 0; i+len(sub) <= len(s); i++ {
			if s[i:i+len(sub)] != sub {
				continue
			}
			if bounded && !(i+len(sub) == len(s) || s[i+len(sub)] == '/') {
				continue
			}
			first := owner[i]
			native := first >= 0
			for k := i; k < i+len(sub); k++ {
				native = native && owner[k] == first
			}
			if !native {
				return true
			}
		}
		return false
	}
	for j, t := range toks {
		if t.Kind != 0 && j+1 < len(toks) {
			L := fold(toks[j+1].Lit)
			if additional(fp, L, false) {
				return path, false, false
			}
			// where the pattern makes the literal's trailing slash optional (end of the pattern, or in front of an optional
			// parameter) the literal has a second spelling without that slash; it must not occur additionally either
			if len(L) > 1 && strings.HasSuffix(L, "/") && (j+2 == len(toks) || toks[j+2].Kind == '?' || toks[j+2].Kind == '*') {
				// (only where it can be that spelling: at the end of the path or in front of a slash - "/ab" is not a
				// spelling of the literal "/a/")
				T := strings.TrimRight(L, "/")
				if T != "" && additional(fp, T, true) {
					return path, false, false
				}
				// without StrictRouting a pattern that ends in a slash IS the pattern without it ("/:p-a/" is "/:p-a"):
				// there the literal is the slash-less text itself, and any further occurrence of it is an additional one
				if T != "" && !strict && j+2 == len(toks) && additional(strings.TrimRight(fp, "/"), T, false) {
					return path, false, false
				}
				if T != "" && (t.Kind == '*' || t.Kind == '+') && additional(fp, T, false) {
					slashless = true
				}
			}
		}
	}
	return path, true, slashless
}

var noise = []string{"/", "/a", "/ab", "/abc", "/abcd", "/a/", "/x", "/x/y", "/a-x", "/a.x", "/A", "/a/x/", "/ab/", "/-", "/.", "/a-", "/x-a", "/a/x/y/z"}

func patternString(toks []tok) string {
	var sb strings.Builder
	for _, t := range toks {
		sb.WriteString(t.src())
	}
	return sb.String()
}

func pctFirst(vals []string) ([]string, bool) {
	// percent-encode the first byte of the first non-empty value that starts with a letter
	for i, v := range vals {
		if v != "" && v[0] != '/' {
			out := append([]string(nil), vals...)
			out[i] = fmt.Sprintf("%%%02X", v[0]) + v[1:]
			return out, true
		}
	}
	return nil, false
}

func fill(toks []tok, vals []string) string {
	var pb strings.Builder
	vi := 0
	for _, t := range toks {
		if t.Kind == 0 {
			pb.WriteString(t.Lit)
		} else {
			pb.WriteString(vals[vi])
			vi++
		}
	}
	return pb.String()
}

// fillPctLit is fill with the first ASCII letter of a literal written as a percent escape (of its other-case form when
// swap is set).
func fillPctLit(toks []tok, vals []string, swap bool) (string, bool) {
	var pb strings.Builder
	vi, done := 0, false
	for _, t := range toks {
		if t.Kind != 0 {
			pb.WriteString(vals[vi])
			vi++
			continue
		}
		for i := 0; i < len(t.Lit); i++ {
			ch := t.Lit[i]
			isLetter := ch >= 'a' && ch <= 'z' || ch >= 'A' && ch <= 'Z'
			if done || !isLetter {
				pb.WriteByte(ch)
				continue
			}
			if swap {
				ch ^= 0x20
			}
			fmt.Fprintf(&pb, "%%%02X", ch)
			done = true
		}
	}
	return pb.String(), done
}

func casesFor(toks []tok, cs, strict, unesc bool, emit func(Case)) {
	pattern := patternString(toks)
	if !strict && strings.Contains(pattern, "//") {
		// an empty path segment in a pattern: what "ignores a trailing slash" means next to it is not settled by the
		// statement (fiber strips every trailing slash of the path); such patterns are explored under StrictRouting only
		return
	}
	var params []int
	for i, t := range toks {
		if t.Kind != 0 {
			params = append(params, i)
		}
	}
	last := toks[len(toks)-1]
	tailGreedy := last.Kind == '*' || last.Kind == '+' ||
		(len(toks) >= 2 && last.Kind == 0 && last.Lit == "/" && (toks[len(toks)-2].Kind == '*' || toks[len(toks)-2].Kind == '+'))
	base := Case{CS: cs, Strict: strict, Unesc: unesc, Pattern: pattern}
	var assign func(i int, vals []string)
	assign = func(i int, vals []string) {
		if i < len(params) {
			for _, v := range pool(toks[params[i]].Kind) {
				assign(i+1, append(vals, v))
			}
			return
		}
		path, ok, slashless := admissible(toks, vals, cs, strict)
		if !ok {
			return
		}
		if !strict && last.Kind == '+' && vals[len(vals)-1] == "/" {
			return // the whole value is the trailing slash that non-strict routing ignores: the statement cannot require both
		}
		c := base
		c.Slashless = slashless
		c.Expect, c.Path, c.Want, c.Variant = "match", path, append([]string(nil), vals...), "base"
		c.TailTol = tailGreedy && !strict && strings.HasSuffix(path, "/")
		emit(c)
		if !cs {
			cc := c
			cc.Path, cc.Variant = swapCase(path), "case"
			cc.Want = make([]string, len(vals))
			for k := range vals {
				cc.Want[k] = swapCase(vals[k])
			}
			if cc.Path != path {
				emit(cc)
			}
		}
		if !strict && !strings.HasSuffix(path, "/") {
			cc := c
			cc.Path, cc.Variant, cc.TailTol = path+"/", "addslash", tailGreedy
			emit(cc)
		}
		if pv, ok := pctFirst(vals); ok {
			cc := c
			cc.Path, cc.Variant = fill(toks, pv), "pct"
			if !unesc {
				cc.Want = pv
			}
			emit(cc)
		}
		if unesc {
			// a letter of a literal arrives percent-encoded (in the other case when routing ignores case): decoding comes
			// before case folding, so the literal still matches
			if pp, ok := fillPctLit(toks, vals, !cs); ok {
				cc := c
				cc.Path, cc.Variant = pp, "pctlit"
				emit(cc)
			}
		}
	}
	assign(0, nil)
	for _, n := range noise {
		c := base
		c.Expect, c.Path, c.Variant = "any", n, "noise"
		emit(c)
	}
}

func TestExhaustive(t *testing.T) {
	vk.ShardZeroOnly(t)
	depth := 4
	if vk.Tier() == "thorough" {
		depth = 5
	}
	var pats [][]tok
	enumPatterns(depth, func(p []tok) { pats = append(pats, p) })
	var wg sync.WaitGroup
	var mu sync.Mutex
	fails := 0
	total := 0
	for ci := 0; ci < 8; ci++ {
		wg.Add(1)
		go func(ci int) {
			defer wg.Done()
			cs, strict, unesc := ci&1 != 0, ci&2 != 0, ci&4 != 0
			n := 0
			for _, p := range pats {
				ra, err := newRouteApp(fiber.Config{CaseSensitive: cs, StrictRouting: strict, UnescapePath: unesc}, patternString(p))
				if err != nil {
					mu.Lock()
					fails++
					mu.Unlock()
					t.Errorf("pattern %q: %v", patternString(p), err)
					continue
				}
				casesFor(p, cs, strict, unesc, func(c Case) {
					n++
					v := checkOn(ra, c)
					h := fnv.New64a()
					fmt.Fprintf(h, "%d|%s|%s", ci, c.Pattern, c.Path)
					if v.Fail != "" {
						if id := classify(c, v.Fail); id != "" && vk.OpenFindings(property)[id] {
							vk.Rec.Excluded(id)
							return
						}
						mu.Lock()
						fails++
						f := fails
						mu.Unlock()
						if f <= 5 {
							path := vk.SaveReplay(propRoundTrip, c, v.Fail)
							vk.Rec.Violation("exhaustive", path)
							t.Errorf("VIOLATION-CANDIDATE property=%s test=exhaustive replay=%s\n%s", property, path, v.Fail)
						}
						return
					}
					vk.Rec.Count("exhaustive", h.Sum64(), v.NonTrivial, v.Classes, func() any { return c })
				})
			}
			mu.Lock()
			total += n
			mu.Unlock()
		}(ci)
	}
	wg.Wait()
	vk.Rec.Extra("exhaustive_space", map[string]any{"max_tokens": depth, "patterns": len(pats), "configs": 8, "cases": total, "failures": fails,
		"literals": exLits, "complete": true})
	if fails > 5 {
		t.Errorf("%d failing cases in the exhaustive space (first 5 saved)", fails)
	}
}

func classify(c Case, fail string) string { return "" } // no open finding (C03-d, the Slashless shape, is repaired)

// ---------------------------------------------------------------------------------------------------------
// random part: longer patterns, escaped specials in literals, multi-byte runes, values with spaces

func esc(l string) string {
	return strings.NewReplacer(":", `\:`, "*", `\*`, "+", `\+`, "?", `\?`, "<", `\<`, ">", `\>`, "(", `\(`, ")", `\)`).Replace(l)
}

// lowerHex writes the hex digits of every percent-escape in lower case
func lowerHex(s string) string {
	b := []byte(s)
	for i := 0; i+2 < len(b); i++ {
		if b[i] == '%' {
			for j := i + 1; j <= i+2; j++ {
				if b[j] >= 'A' && b[j] <= 'F' {
					b[j] += 'a' - 'A'
				}
			}
			i += 2
		}
	}
	return string(b)
}

func wireEsc(s string) string {
	return strings.ReplaceAll((&url.URL{Path: s}).EscapedPath(), "%2F", "/")
}

var litTail = []string{"", "a", "ab", "abc", "x", "v1", "é", "A", ":", "*", "+", "(", "a:b", "abcd", "a_b", "0",
	// literals that contain the delimiter characters themselves (several occurrences inside one constant part)
	"a/", "a/b", "x-y", "a.b", "b/c/", "comments/", "-", "v1.2.", "a-b-c", "x/y-z.w",
	// literals that overlap themselves once their (optional) trailing slash is left out: "-a-/", "--/", ".a./"
	"a-/", "-/", "a-a-/", "a./",
	// capitals outside ASCII (case-insensitive routing folds ASCII letters only, on both sides alike)
	"\u00c9", "\u00dcber", "\u00c9/"}
var valPool = []string{"x", "xy", "1", "é", "X", "a b", "a+b", "100%", "~", "日本", "x_y", "q", "\u212a1", "\u0130b", "\u023aab",
	// values that end in a proper prefix of such a literal
	"x-a", "x-", "y-a-a", "x.a"}

func genRandom(t *rapid.T) Case {
	c := Case{CS: rapid.Bool().Draw(t, "cs"), Strict: rapid.Bool().Draw(t, "strict"), Unesc: rapid.Bool().Draw(t, "unesc")}
	var toks []tok
	toks = append(toks, tok{Lit: "/" + rapid.SampledFrom(litTail).Draw(t, "l0")})
	np := rapid.IntRange(1, 5).Draw(t, "np")
	if rapid.IntRange(0, 9).Draw(t, "noparams") == 0 {
		np = 0 // a pattern that is one literal (possibly with escaped special characters)
	}
	// skeleton mode: parameters separated by bare slashes (greedy parameters are then delimited by counting slashes, and a
	// trailing optional parameter that stays empty removes one of them from the path)
	skeleton := rapid.IntRange(0, 3).Draw(t, "skeleton") == 0
	if skeleton {
		toks[0].Lit = "/" + rapid.SampledFrom([]string{"", "", "files/", "a/"}).Draw(t, "l0s")
	}
	for i := 0; i < np; i++ {
		kinds := []byte{':', ':', '?', '*', '+'}
		if skeleton && i == np-1 {
			kinds = []byte{'?', '?', ':', '*'}
		}
		toks = append(toks, tok{Kind: rapid.SampledFrom(kinds).Draw(t, "k"), Name: fmt.Sprintf("p%d", i)})
		if i < np-1 || rapid.Bool().Draw(t, "tail") {
			d := rapid.SampledFrom([]string{"/", "-", "."}).Draw(t, "d")
			lt := rapid.SampledFrom(litTail).Draw(t, "lt")
			if skeleton {
				d, lt = "/", rapid.SampledFrom([]string{"", "", "", "x/", "meta/"}).Draw(t, "lts")
			}
			toks = append(toks, tok{Lit: d + lt})
		}
	}
	var pat strings.Builder
	for _, x := range toks {
		if x.Kind == 0 {
			pat.WriteString(esc(x.Lit))
		} else {
			pat.WriteString(x.src())
		}
	}
	c.Pattern = pat.String()
	var vals []string
	for _, x := range toks {
		if x.Kind == 0 {
			continue
		}
		var v string
		switch x.Kind {
		case ':':
			v = rapid.SampledFrom(valPool).Draw(t, "v")
		case '?':
			v = rapid.SampledFrom(append([]string{""}, valPool...)).Draw(t, "v")
		case '*':
			v = rapid.SampledFrom(append([]string{"", "x/y", "a/b/c"}, valPool...)).Draw(t, "v")
		case '+':
			v = rapid.SampledFrom(append([]string{"x/y", "a/b/c"}, valPool...)).Draw(t, "v")
		}
		vals = append(vals, v)
	}
	if rapid.IntRange(0, 5).Draw(t, "noisepath") == 0 {
		// an unrelated path: nothing is expected of it except that RoutePatternMatch and dispatch agree
		c.Expect, c.Variant = "any", "noise"
		c.Path = wireEsc(rapid.SampledFrom(append([]string{"/foo", "/*", "/:", "/+", "/x/y/z", "/\\*", "/("}, noise...)).Draw(t, "noise"))
		return c
	}
	p, ok, slashless := admissible(toks, vals, c.CS, c.Strict)
	c.Slashless = slashless
	if !ok || strings.ContainsAny(p, "?#") {
		c.Expect = "skip"
		return c
	}
	c.Path = wireEsc(p)
	if c.Unesc && rapid.IntRange(0, 2).Draw(t, "lowerhex") == 0 {
		c.Path = lowerHex(c.Path) // "%c3%a9" is the same octets as "%C3%A9" (RFC 3986 2.1)
	}
	c.Want = vals
	c.Expect, c.Variant = "match", "base"
	if !c.Unesc {
		c.Want = make([]string, len(vals))
		for i, v := range vals {
			c.Want[i] = wireEsc(v)
		}
		// a literal whose wire form differs from its text cannot match the pattern's raw literal: outside the domain
		for _, x := range toks {
			if x.Kind == 0 && wireEsc(x.Lit) != x.Lit {
				c.Expect = "skip"
			}
		}
	}
	last := toks[len(toks)-1]
	tailGreedy := last.Kind == '*' || last.Kind == '+' ||
		(len(toks) >= 2 && last.Kind == 0 && last.Lit == "/" && (toks[len(toks)-2].Kind == '*' || toks[len(toks)-2].Kind == '+'))
	c.TailTol = !c.Strict && tailGreedy && strings.HasSuffix(p, "/")
	return c
}

var propRoundTrip = vk.Register(&vk.Prop[Case]{
	Property: property, Name: "roundtrip", Gen: genRandom, Quick: 30000, Thorough: 300000,
	Check: func(c Case) vk.Verdict {
		if c.Expect == "skip" {
			return vk.Verdict{Skip: true}
		}
		return check(c)
	},
	Classify: classify,
})

func TestRandom(t *testing.T) { propRoundTrip.Run(t) }
func FuzzRandom(f *testing.F) { propRoundTrip.Fuzz(f) }

// countOverlap counts all (also overlapping) occurrences of sub in s.
// countBounded counts the occurrences of sub that end the string or are followed by a slash or a parameter position.
func countBounded(s, sub string) int {
	n := 0
	for i := 0; i+len(sub) <= len(s); i++ {
		if s[i:i+len(sub)] == sub && (i+len(sub) == len(s) || s[i+len(sub)] == '/' || s[i+len(sub)] == 0) {
			n++
		}
	}
	return n
}

func countOverlap(s, sub string) int {
	if sub == "" {
		return 0
	}
	n := 0
	for i := 0; i+len(sub) <= len(s); i++ {
		if s[i:i+len(sub)] == sub {
			n++
		}
	}
	return n
}
