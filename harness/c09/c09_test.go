package c09

import (
	"fmt"
	"sort"
	"strconv"
	"strings"
	"testing"

	"github.com/gofiber/fiber/v3"
	"pgregory.net/rapid"

	"verifharness/vk"
)

const property = "C09"

func TestMain(m *testing.M) { vk.Main(m, property) }

func TestAAACorpus(t *testing.T)    { vk.TestCorpus(t, property) }
func TestAAAWitnesses(t *testing.T) { vk.TestWitnesses(t, property) }
func TestReplay(t *testing.T)       { vk.TestReplay(t) }

type Param struct{ Name, Value string } // Value as written (possibly a quoted-string)

type Range struct {
	Spec   string  // type/subtype | type/* | */* | token | *
	Params []Param `json:",omitempty"`
	Q      string  `json:",omitempty"` // weight text, "" = none
	SemiWS string  `json:",omitempty"` // text used for ";" (with optional OWS)
	UpperQ bool    `json:",omitempty"` // the weight is spelled "Q="
}

type Step struct {
	Fn           string // accepts | charsets | encodings | languages | format
	Absent       bool   `json:",omitempty"`
	Ranges       []Range
	Comma        string // text used for "," (with optional OWS)
	Offers       []string
	Default      bool `json:",omitempty"` // format: a "default" handler is registered
	DefaultFirst bool `json:",omitempty"` // ... in front of the offers instead of behind them
}

type Case struct{ Steps []Step }

// (SemiWS may contain an empty parameter - ";;" - which the grammar allows: parameters = *( OWS ";" OWS [ parameter ] ))
func (r Range) render() string {
	semi := r.SemiWS
	if semi == "" {
		semi = ";"
	}
	s := r.Spec
	for _, p := range r.Params {
		s += semi + p.Name + "=" + p.Value
	}
	if r.Q != "" {
		qn := "q="
		if r.UpperQ {
			qn = "Q=" // parameter names are case-insensitive, the weight's too
		}
		s += semi + qn + r.Q
	}
	return s
}

func (s Step) header() string {
	parts := make([]string, len(s.Ranges))
	for i, r := range s.Ranges {
		parts[i] = r.render()
	}
	return strings.Join(parts, s.Comma)
}

func headerName(fn string) string {
	switch fn {
	case "charsets":
		return "Accept-Charset"
	case "encodings":
		return "Accept-Encoding"
	case "languages":
		return "Accept-Language"
	}
	return "Accept"
}

// ---- reference negotiator, written from the statement ---------------------------------------------------

var extMIME = map[string]string{"html": "text/html", "json": "application/json", "txt": "text/plain", "xml": "application/xml", "png": "image/png",
	// not in fiber's own table: resolved through Go's mime package, whose built-in entry carries a parameter
	"mjs": "text/javascript; charset=utf-8"}

// unquote returns the value of a quoted-string: without the quotes and with every quoted-pair \c replaced by c.
func unquote(v string) string {
	if len(v) >= 2 && v[0] == '"' && v[len(v)-1] == '"' {
		v = v[1 : len(v)-1]
		var sb strings.Builder
		for i := 0; i < len(v); i++ {
			if v[i] == '\\' && i+1 < len(v) {
				i++
			}
			sb.WriteByte(v[i])
		}
		return sb.String()
	}
	return v
}

// splitSemi splits at ';' outside of quoted strings (quoted-pairs respected)
func splitSemi(o string) []string {
	var parts []string
	start, inQ := 0, false
	for i := 0; i < len(o); i++ {
		switch {
		case inQ && o[i] == '\\':
			i++
		case o[i] == '"':
			inQ = !inQ
		case o[i] == ';' && !inQ:
			parts = append(parts, o[start:i])
			start = i + 1
		}
	}
	return append(parts, o[start:])
}

func splitOffer(o string) (mime string, params []Param) {
	parts := splitSemi(o)
	mime = strings.TrimSpace(parts[0])
	if !strings.Contains(mime, "/") {
		if m, ok := extMIME[mime]; ok {
			mime = m
			if i := strings.Index(m, ";"); i >= 0 {
				// the extension stands for a type with a parameter: the offer has it
				mime = m[:i]
				kv := strings.SplitN(strings.TrimSpace(m[i+1:]), "=", 2)
				params = append(params, Param{kv[0], kv[1]})
			}
		}
	}
	for _, p := range parts[1:] {
		kv := strings.SplitN(strings.TrimSpace(p), "=", 2)
		if len(kv) == 2 {
			params = append(params, Param{kv[0], kv[1]})
		}
	}
	return mime, params
}

func mediaAcceptable(r Range, offer string) bool {
	mime, op := splitOffer(offer)
	switch {
	case r.Spec == "*/*":
	case strings.HasSuffix(r.Spec, "/*"):
		// (type, subtype, charset, coding and language tokens are case-insensitive)
		if !strings.HasPrefix(strings.ToLower(mime), strings.ToLower(r.Spec[:len(r.Spec)-1])) {
			return false
		}
	default:
		if !strings.EqualFold(r.Spec, mime) {
			return false
		}
	}
	for _, rp := range r.Params {
		found := false
		for _, p := range op {
			if strings.EqualFold(p.Name, rp.Name) {
				found = strings.EqualFold(unquote(p.Value), unquote(rp.Value))
				break
			}
		}
		if !found {
			return false
		}
	}
	return true
}

// tokenAcceptable: the range names the offer, or a more specific tag of it ("fr-CH" is served by the offer "fr");
// a token that merely starts with the offer's letters ("fil" / "fi", "iso-8859-15" / "iso-8859-1") is another token
func tokenAcceptable(r Range, offer string) bool {
	return r.Spec == "*" || strings.EqualFold(r.Spec, offer) || strings.HasPrefix(strings.ToLower(r.Spec), strings.ToLower(offer)+"-")
}

func specificity(spec string) int {
	switch {
	case spec == "*" || spec == "*/*":
		return 1
	case strings.HasSuffix(spec, "/*"):
		return 2
	default:
		return 3
	}
}

type live struct {
	r   Range
	q   float64
	pos int
}

func negotiate(s Step) (want string, liveKeys int) {
	if len(s.Offers) == 0 {
		return "", 0
	}
	if s.Absent {
		return s.Offers[0], 0
	}
	var ls []live
	for i, r := range s.Ranges {
		q := 1.0
		if r.Q != "" {
			q, _ = strconv.ParseFloat(r.Q, 64)
		}
		if q == 0 {
			continue
		}
		ls = append(ls, live{r, q, i})
	}
	sort.SliceStable(ls, func(i, j int) bool {
		a, b := ls[i], ls[j]
		if a.q != b.q {
			return a.q > b.q
		}
		if sa, sb := specificity(a.r.Spec), specificity(b.r.Spec); sa != sb {
			return sa > sb
		}
		if len(a.r.Params) != len(b.r.Params) {
			return len(a.r.Params) > len(b.r.Params)
		}
		return a.pos < b.pos
	})
	keys := map[string]bool{}
	for _, l := range ls {
		keys[fmt.Sprintf("%v|%d|%d", l.q, specificity(l.r.Spec), len(l.r.Params))] = true
	}
	media := s.Fn == "accepts" || s.Fn == "format"
	for _, l := range ls {
		for _, o := range s.Offers {
			if (media && mediaAcceptable(l.r, o)) || (!media && tokenAcceptable(l.r, o)) {
				return o, len(keys)
			}
		}
	}
	return "", len(keys)
}

// ---- execution -------------------------------------------------------------------------------------------

type result struct {
	answer string
	status int
	ctype  string
}

func runStep(app *fiber.App, cur *Step, res *result, s Step) {
	*cur = s
	*res = result{}
	var hdr []string
	if !s.Absent {
		hdr = []string{headerName(s.Fn), s.header()}
	}
	resp := vk.Do(app, "GET", "/", hdr...)
	res.status = resp.Response.StatusCode()
	res.ctype = string(resp.Response.Header.ContentType())
}

func newApp(cur *Step, res *result) *fiber.App {
	app := fiber.New()
	app.Get("/", func(c fiber.Ctx) error {
		s := *cur
		switch s.Fn {
		case "accepts":
			res.answer = c.Accepts(s.Offers...)
		case "charsets":
			res.answer = c.AcceptsCharsets(s.Offers...)
		case "encodings":
			res.answer = c.AcceptsEncodings(s.Offers...)
		case "languages":
			res.answer = c.AcceptsLanguages(s.Offers...)
		case "format":
			var hs []fiber.ResFmt
			for _, o := range s.Offers {
				o := o
				hs = append(hs, fiber.ResFmt{MediaType: o, Handler: func(c fiber.Ctx) error { res.answer = o; return c.SendString("x") }})
			}
			if s.Default {
				hs = append(hs, fiber.ResFmt{MediaType: "default", Handler: func(c fiber.Ctx) error { res.answer = "default"; return c.SendString("d") }})
				if s.DefaultFirst {
					// the fallback is listed first: it is still not an offer
					hs = append(hs[len(hs)-1:], hs[:len(hs)-1]...)
				}
			}
			return c.Format(hs...)
		}
		return nil
	})
	return app
}

func check(c Case) vk.Verdict {
	var cur Step
	var res result
	app := newApp(&cur, &res)
	v := vk.Verdict{}
	for i, s := range c.Steps {
		if len(s.Offers) == 0 {
			return vk.Verdict{Skip: true}
		}
		runStep(app, &cur, &res, s)
		want, keys := negotiate(s)
		ctx := fmt.Sprintf("step %d %s: header %q offers %q", i, s.Fn, s.header(), s.Offers)
		if s.Absent {
			ctx = fmt.Sprintf("step %d %s: header absent, offers %q", i, s.Fn, s.Offers)
		}
		if s.Fn == "format" {
			switch {
			case want == "" && s.Default:
				if res.answer != "default" {
					return vk.Failf("%s: Format ran %q, want the default handler", ctx, res.answer)
				}
			case want == "":
				if res.status != 406 || res.answer != "" {
					return vk.Failf("%s: Format ran %q with status %d, want 406 and no handler", ctx, res.answer, res.status)
				}
			default:
				if res.answer != want {
					return vk.Failf("%s: Format ran the handler for %q, want %q", ctx, res.answer, want)
				}
				if res.ctype != want {
					return vk.Failf("%s: Format chose %q but Content-Type is %q", ctx, want, res.ctype)
				}
			}
		} else if res.answer != want {
			return vk.Failf("%s: got %q, want %q (first offer acceptable to the most preferred range)", ctx, res.answer, want)
		}
		if keys >= 2 && want != "" && want != s.Offers[0] {
			v.NonTrivial = true
		}
		v.Classes = append(v.Classes, "fn:"+s.Fn)
		if want == "" {
			v.Classes = append(v.Classes, "none-acceptable")
		}
		for _, r := range s.Ranges {
			if len(r.Params) > 0 {
				v.Classes = append(v.Classes, "range-params")
				break
			}
		}
	}
	return v
}

// ---- generator ------------------------------------------------------------------------------------------

var mimes = []string{"text/html", "text/plain", "text/javascript", "application/json", "image/png", "application/xml", "text/css", "text/csv", "image/gif", "image/jpeg", "application/pdf",
	"application/zip", "audio/mpeg", "video/mp4", "font/woff2", "text/markdown", "application/yaml"}
var tokens = []string{"utf-8", "gzip", "br", "en", "de", "iso-8859-1", "zstd", "fr", "es", "it", "pt", "nl", "sv", "da", "fi", "pl", "cs", "hu", "ja", "ko",
	// look-alikes: sub-tags of a listed token, and tokens that only start with the letters of another one
	"fr-CH", "en-US", "fil", "iso-8859-15", "deflate", "es-419", "zh", "zh-Hant",
	// ranges with two and more sub-tags: every prefix that ends at a hyphen is an offer they accept
	"zh-Hant-TW", "en-US-x-twain", "iso-8859", "en-US-x"}
var qPool = []string{"0", "0.0", "0.000", "0.001", "0.1", "0.5", "0.50", "0.9", "0.999", "1", "1.0", "1.000", "0.2", "0.3", "0.3", "0.30", "0.4", "0.6", "0.6", "0.600", "0.7", "0.7", "0.70", "0.8", "0.07", "0.33", "0.67", "0.123"}
var pnames = []string{"charset", "level", "v", "title"}
var pvals = []string{"utf-8", "1", "2", `"a b"`, `"1"`, "UTF-8", `"x,y"`, `"x\"y"`, `"q\\"`, `"x\,"`, `"\,\\\""`, `"\;q=0"`}

func genStep(t *rapid.T) Step {
	s := Step{Fn: rapid.SampledFrom([]string{"accepts", "accepts", "accepts", "format", "charsets", "encodings", "languages"}).Draw(t, "fn")}
	s.Comma = rapid.SampledFrom([]string{",", ", ", " , ", " ,", ",  ", "\t,", ",\t", " \t, \t"}).Draw(t, "comma") // OWS = *( SP / HTAB )
	media := s.Fn == "accepts" || s.Fn == "format"
	if rapid.IntRange(0, 14).Draw(t, "absent") == 0 {
		s.Absent = true
	}
	nr := rapid.IntRange(1, 6).Draw(t, "nr")
	if rapid.IntRange(0, 6).Draw(t, "long") == 0 {
		nr = rapid.IntRange(7, 24).Draw(t, "nrlong") // browsers and API gateways send long lists; ordering must not depend on the length
	}
	for i := 0; i < nr && !s.Absent; i++ {
		var r Range
		if media {
			switch rapid.IntRange(0, 7).Draw(t, "rk") {
			case 7:
				// look-alikes of an offered type: a type or subtype that only starts like (or is the start of) the
				// offer's is a different token
				m := rapid.SampledFrom(mimes).Draw(t, "lm")
				i := strings.IndexByte(m, '/')
				ty, sub := m[:i], m[i+1:]
				r.Spec = rapid.SampledFrom([]string{ty + "ual/*", ty + "x/*", ty[:len(ty)-1] + "/*", "x" + ty + "/*", ty + "/" + sub + "x", ty + "/" + sub[:len(sub)-1], ty + "x/" + sub, ty + "/*x"}).Draw(t, "look")
			case 0:
				r.Spec = "*/*"
			case 1, 2:
				m := rapid.SampledFrom(mimes).Draw(t, "rt")
				r.Spec = m[:strings.IndexByte(m, '/')] + "/*"
			default:
				r.Spec = rapid.SampledFrom(mimes).Draw(t, "rm")
			}
			np := rapid.SampledFrom([]int{0, 0, 0, 1, 1, 2}).Draw(t, "np")
			names := rapid.SliceOfNDistinct(rapid.SampledFrom(pnames), np, np, rapid.ID[string]).Draw(t, "pn")
			for _, n := range names {
				r.Params = append(r.Params, Param{n, rapid.SampledFrom(pvals).Draw(t, "pv")})
			}
		} else {
			if rapid.IntRange(0, 4).Draw(t, "star") == 0 {
				r.Spec = "*"
			} else {
				r.Spec = rapid.SampledFrom(tokens).Draw(t, "tok")
			}
		}
		if rapid.IntRange(0, 9).Draw(t, "othercase") == 0 {
			// the same range in another spelling: TEXT/HTML, Text/*, UTF-8 / GZIP / EN-us
			if rapid.Bool().Draw(t, "upper") {
				r.Spec = strings.ToUpper(r.Spec)
			} else {
				r.Spec = strings.ToUpper(r.Spec[:1]) + r.Spec[1:]
			}
		}
		if rapid.IntRange(0, 2).Draw(t, "hasq") != 0 {
			r.Q = rapid.SampledFrom(qPool).Draw(t, "q")
			if rapid.IntRange(0, 3).Draw(t, "qgen") == 0 {
				r.Q = rapid.StringMatching(`0\.[0-9]{1,3}`).Draw(t, "qdigits") // any qvalue of the grammar; few digits, so ties are common
			}
		}
		r.SemiWS = rapid.SampledFrom([]string{";", ";", "; ", " ;", " ; ", ";\t", "\t;", " \t; \t", ";;", "; ;"}).Draw(t, "semi") // OWS = *( SP / HTAB ); ";;" = an empty parameter
		r.UpperQ = rapid.IntRange(0, 7).Draw(t, "upperq") == 0
		s.Ranges = append(s.Ranges, r)
	}
	no := rapid.IntRange(1, 5).Draw(t, "no")
	for i := 0; i < no; i++ {
		if media {
			o := rapid.SampledFrom(mimes).Draw(t, "om")
			if s.Fn == "accepts" && rapid.IntRange(0, 5).Draw(t, "ext") == 0 {
				o = rapid.SampledFrom([]string{"html", "json", "txt", "xml", "png", "mjs", "mjs"}).Draw(t, "oext")
			} else {
				np := rapid.SampledFrom([]int{0, 0, 1, 2}).Draw(t, "onp")
				names := rapid.SliceOfNDistinct(rapid.SampledFrom(pnames), np, np, rapid.ID[string]).Draw(t, "opn")
				for _, n := range names {
					o += ";" + n + "=" + rapid.SampledFrom(pvals).Draw(t, "opv")
				}
			}
			s.Offers = append(s.Offers, o)
		} else {
			s.Offers = append(s.Offers, rapid.SampledFrom(tokens).Draw(t, "otok"))
		}
	}
	if s.Fn == "format" {
		// Format dispatches on the MediaType text; keep the handlers distinguishable
		seen := map[string]bool{}
		var uniq []string
		for _, o := range s.Offers {
			if !seen[o] {
				seen[o] = true
				uniq = append(uniq, o)
			}
		}
		s.Offers = uniq
		s.Default = rapid.Bool().Draw(t, "default")
		s.DefaultFirst = s.Default && rapid.IntRange(0, 2).Draw(t, "defaultfirst") == 0
	}
	return s
}

func genCase(t *rapid.T) Case {
	n := rapid.IntRange(1, 4).Draw(t, "nsteps")
	var c Case
	for i := 0; i < n; i++ {
		c.Steps = append(c.Steps, genStep(t))
	}
	return c
}

var propNegotiate = vk.Register(&vk.Prop[Case]{
	Property: property, Name: "negotiate", Gen: genCase, Check: check,
	Quick: 60000, Thorough: 400000,
})

func TestNegotiate(t *testing.T) { propNegotiate.Run(t) }

// ---- metamorphic relations ------------------------------------------------------------------------------

type MetaCase struct {
	Step Step
	Perm []int // permutation applied to the ranges
}

func checkMeta(m MetaCase) vk.Verdict {
	s := m.Step
	if len(s.Offers) == 0 || s.Absent {
		return vk.Verdict{Skip: true}
	}
	// pairwise different sort keys are required for permutation invariance
	keys := map[string]bool{}
	for _, r := range s.Ranges {
		q := 1.0
		if r.Q != "" {
			q, _ = strconv.ParseFloat(r.Q, 64)
		}
		k := fmt.Sprintf("%v|%d|%d", q, specificity(r.Spec), len(r.Params))
		if keys[k] {
			return vk.Verdict{Skip: true}
		}
		keys[k] = true
	}
	var cur Step
	var res result
	app := newApp(&cur, &res)
	runStep(app, &cur, &res, s)
	base := res
	p := s
	p.Ranges = make([]Range, len(s.Ranges))
	for i, j := range m.Perm {
		p.Ranges[i] = s.Ranges[j]
	}
	runStep(app, &cur, &res, p)
	if res.answer != base.answer || res.status != base.status {
		return vk.Failf("%s: header %q gives %q but the permuted header %q (pairwise different preference keys) gives %q", s.Fn, s.header(), base.answer, p.header(), res.answer)
	}
	// adding a q=0 range for an unrelated type changes nothing
	z := s
	unrelated := Range{Spec: "video/mp4", Q: "0"}
	if s.Fn != "accepts" && s.Fn != "format" {
		unrelated = Range{Spec: "x-unrelated", Q: "0"}
	}
	z.Ranges = append([]Range{unrelated}, s.Ranges...)
	runStep(app, &cur, &res, z)
	if res.answer != base.answer || res.status != base.status {
		return vk.Failf("%s: header %q gives %q but with an extra unrelated q=0 range (%q) it gives %q", s.Fn, s.header(), base.answer, z.header(), res.answer)
	}
	inOffers := base.answer == "" || base.answer == "default"
	for _, o := range s.Offers {
		if o == base.answer {
			inOffers = true
		}
	}
	if !inOffers {
		return vk.Failf("%s: answer %q is not one of the offers %q", s.Fn, base.answer, s.Offers)
	}
	return vk.Verdict{NonTrivial: len(s.Ranges) >= 2 && base.answer != "", Classes: []string{"fn:" + s.Fn}}
}

var propMeta = vk.Register(&vk.Prop[MetaCase]{
	Property: property, Name: "metamorphic",
	Gen: func(t *rapid.T) MetaCase {
		s := genStep(t)
		return MetaCase{Step: s, Perm: rapid.Permutation(idx(len(s.Ranges))).Draw(t, "perm")}
	},
	Check: checkMeta, Quick: 20000, Thorough: 100000,
})

func idx(n int) []int {
	a := make([]int, n)
	for i := range a {
		a[i] = i
	}
	return a
}

func TestMetamorphic(t *testing.T) { propMeta.Run(t) }

// ---- totality on arbitrary header bytes -----------------------------------------------------------------

type RawCase struct {
	Fn     string
	Header []byte
	Offers []string
}

func checkRaw(c RawCase) vk.Verdict {
	if len(c.Offers) == 0 {
		return vk.Verdict{Skip: true}
	}
	var cur Step
	var res result
	app := newApp(&cur, &res)
	cur = Step{Fn: c.Fn, Offers: c.Offers}
	res = result{}
	func() {
		defer func() {
			if r := recover(); r != nil {
				res.answer = fmt.Sprintf("\x00panic: %v", r)
			}
		}()
		resp := vk.Do(app, "GET", "/", headerName(c.Fn), string(c.Header))
		res.status = resp.Response.StatusCode()
	}()
	if strings.HasPrefix(res.answer, "\x00panic") {
		return vk.Failf("%s with header %q offers %q: %s", c.Fn, c.Header, c.Offers, res.answer[1:])
	}
	if res.status == 500 {
		return vk.Failf("%s with header %q offers %q: status 500", c.Fn, c.Header, c.Offers)
	}
	ok := res.answer == ""
	for _, o := range c.Offers {
		if o == res.answer {
			ok = true
		}
	}
	if !ok {
		return vk.Failf("%s with header %q: answer %q is not one of the offers %q", c.Fn, c.Header, res.answer, c.Offers)
	}
	return vk.Verdict{NonTrivial: len(c.Header) > 0 && res.answer != "", Classes: []string{"fn:" + c.Fn}}
}

func genRaw(t *rapid.T) RawCase {
	c := RawCase{Fn: rapid.SampledFrom([]string{"accepts", "charsets", "encodings", "languages"}).Draw(t, "fn")}
	frag := rapid.SampledFrom([]string{"text/html", "*/*", "text/*", ";q=", "0", "0.5", ",", ";", "\"", "\\", " ", "=", "q", "*", "gzip", "/", "a", ";q=0", "\t", "\x00", "é", ";;", ",,", "charset=utf-8"})
	n := rapid.IntRange(0, 12).Draw(t, "nfrag")
	for i := 0; i < n; i++ {
		c.Header = append(c.Header, rapid.OneOf(frag, rapid.StringN(0, 3, 3)).Draw(t, "frag")...)
	}
	pool := tokens
	if c.Fn == "accepts" {
		pool = append(append([]string{}, mimes...), "html", "json", "text/html;charset=utf-8", "unknownext")
	}
	c.Offers = rapid.SliceOfN(rapid.SampledFrom(pool), 1, 4).Draw(t, "offers")
	// bytes a header value cannot carry through the wire are outside the domain
	for _, b := range c.Header {
		if b == '\r' || b == '\n' {
			c.Offers = nil
		}
	}
	return c
}

var propRaw = vk.Register(&vk.Prop[RawCase]{Property: property, Name: "totality", Gen: genRaw, Check: checkRaw, Quick: 20000, Thorough: 100000})

func TestTotality(t *testing.T) { propRaw.Run(t) }

func FuzzTotality(f *testing.F) { propRaw.Fuzz(f) }
