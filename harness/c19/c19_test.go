package c19

import (
	"fmt"
	"strings"
	"testing"

	"github.com/gofiber/fiber/v3"
	"github.com/gofiber/fiber/v3/middleware/cors"
	"pgregory.net/rapid"

	"verifharness/vk"
)

const property = "C19"

func TestMain(m *testing.M) { vk.Main(m, property) }

func TestAAACorpus(t *testing.T)    { vk.TestCorpus(t, property) }
func TestAAAWitnesses(t *testing.T) { vk.TestWitnesses(t, property) }
func TestReplay(t *testing.T)       { vk.TestReplay(t) }

type Entry struct {
	Scheme, Host, Port string
	Wild               bool
	Star               bool   `json:",omitempty"` // the entry is "*"
	Pad                string `json:",omitempty"` // spaces around the entry / trailing slash
	Blank              string `json:",omitempty"` // the entry is an empty string ("empty") or only blanks ("space"): names no origin (what strings.Split of an unset variable yields)
}

func (e Entry) String() string {
	if e.Star {
		return "*"
	}
	switch e.Blank {
	case "empty":
		return ""
	case "space":
		return "  "
	}
	h := e.Host
	if e.Wild {
		h = "*." + h
	}
	s := e.Scheme + "://" + h
	if e.Port != "" {
		s += ":" + e.Port
	}
	switch e.Pad {
	case "sp":
		s = " " + s + " "
	case "slash":
		s += "/"
	}
	return s
}

type Case struct {
	Entries        []Entry
	FuncAllows     []string `json:",omitempty"` // AllowOriginsFunc allows exactly these (lower-case) origins; nil = no func
	Credentials    bool
	PrivateNetwork bool
	MaxAge         int
	AllowMethods   []string `json:",omitempty"`
	AllowHeaders   []string `json:",omitempty"`
	ExposeHeaders  []string `json:",omitempty"`

	Method    string
	HasOrigin bool
	Origin    string
	ACRM      string // Access-Control-Request-Method ("" = absent)
	ACRH      string
	ACRPN     string

	Then []Probe `json:",omitempty"` // further requests served by the same middleware instance, each judged like the first
}

type Probe struct {
	Method    string
	HasOrigin bool
	Origin    string
	ACRM      string
	ACRH      string
	ACRPN     string
}

func (c Case) allowAll() bool {
	if len(c.Entries) == 0 && c.FuncAllows == nil {
		return true
	}
	for _, e := range c.Entries {
		if e.Star {
			return true
		}
	}
	return false
}

// splitOrigin parses a serialized origin scheme://host[:port].
func splitOrigin(o string) (scheme, host, port string, ok bool) {
	i := strings.Index(o, "://")
	if i <= 0 {
		return "", "", "", false
	}
	scheme, rest := o[:i], o[i+3:]
	if strings.ContainsAny(rest, "/?#@") || rest == "" {
		return "", "", "", false
	}
	host = rest
	if j := strings.LastIndex(rest, ":"); j != -1 {
		host, port = rest[:j], rest[j+1:]
	}
	return scheme, host, port, host != ""
}

// allowed is the independent origin-policy model.
func (c Case) allowed() bool {
	if !c.HasOrigin || c.Origin == "" {
		return false
	}
	if c.allowAll() {
		return true
	}
	lo := strings.ToLower(c.Origin)
	for _, f := range c.FuncAllows {
		if f == lo {
			return true
		}
	}
	scheme, host, port, ok := splitOrigin(lo)
	if !ok {
		return false
	}
	for _, e := range c.Entries {
		if e.Star || e.Blank != "" || strings.ToLower(e.Scheme) != scheme || e.Port != port {
			continue
		}
		eh := strings.ToLower(e.Host)
		if e.Wild {
			if strings.HasSuffix(host, "."+eh) && len(host) > len(eh)+1 {
				return true
			}
		} else if host == eh {
			return true
		}
	}
	return false
}

func check(c Case) vk.Verdict {
	cfg := cors.Config{AllowCredentials: c.Credentials, AllowPrivateNetwork: c.PrivateNetwork, MaxAge: c.MaxAge,
		AllowMethods: c.AllowMethods, AllowHeaders: c.AllowHeaders, ExposeHeaders: c.ExposeHeaders}
	for _, e := range c.Entries {
		cfg.AllowOrigins = append(cfg.AllowOrigins, e.String())
	}
	if c.FuncAllows != nil {
		cfg.AllowOriginsFunc = func(o string) bool {
			for _, f := range c.FuncAllows {
				if strings.EqualFold(f, o) { // an allow function that does not care how its argument is spelled
					return true
				}
			}
			return false
		}
	}
	var mw fiber.Handler
	rejected := false
	func() {
		defer func() {
			if r := recover(); r != nil {
				rejected = true
			}
		}()
		mw = cors.New(cfg)
	}()
	if rejected {
		return vk.Verdict{Skip: true} // configuration rejected by the constructor (documented)
	}
	app := fiber.New()
	ran := false
	app.Use(mw)
	app.All("/", func(ctx fiber.Ctx) error { ran = true; return ctx.SendString("ok") })
	// the requests of one case arrive on one connection: the server serves them on one recycled request context
	conn = &vk.Reuse{}
	v := judge(c, cfg, app, &ran, 0)
	for i, p := range c.Then {
		if v.Fail != "" {
			break
		}
		c2 := c
		c2.Method, c2.HasOrigin, c2.Origin, c2.ACRM, c2.ACRH, c2.ACRPN = p.Method, p.HasOrigin, p.Origin, p.ACRM, p.ACRH, p.ACRPN
		ran = false
		v2 := judge(c2, cfg, app, &ran, i+1)
		v.Fail = v2.Fail
		v.NonTrivial = v.NonTrivial || v2.NonTrivial
		v.Classes = append(v.Classes, v2.Classes...)
	}
	if len(c.Then) > 0 {
		v.Classes = append(v.Classes, "several-requests-on-one-instance")
	}
	return v
}

var conn *vk.Reuse

func judge(c Case, cfg cors.Config, app *fiber.App, ranp *bool, nth int) vk.Verdict {
	var hdr []string
	if c.HasOrigin {
		hdr = append(hdr, "Origin", c.Origin)
	}
	if c.ACRM != "" {
		hdr = append(hdr, "Access-Control-Request-Method", c.ACRM)
	}
	if c.ACRH != "" {
		hdr = append(hdr, "Access-Control-Request-Headers", c.ACRH)
	}
	if c.ACRPN != "" {
		hdr = append(hdr, "Access-Control-Request-Private-Network", c.ACRPN)
	}
	r := conn.Do(app, c.Method, "/", hdr...)
	get := func(k string) string { return string(r.Response.Header.Peek(k)) }
	acao, acac, vary := get("Access-Control-Allow-Origin"), get("Access-Control-Allow-Credentials"), get("Vary")
	allowed, all := c.allowed(), c.allowAll()
	ran := *ranp
	ctx := fmt.Sprintf("config origins=%q func=%q creds=%v; request #%d on this instance: %s Origin=%q(present=%v) ACRM=%q", cfg.AllowOrigins, c.FuncAllows, c.Credentials, nth+1, c.Method, c.Origin, c.HasOrigin, c.ACRM)

	if acao != "" {
		if !allowed {
			return vk.Failf("%s: Access-Control-Allow-Origin %q emitted for an origin the configuration does not permit", ctx, acao)
		}
		if !(acao == strings.ToLower(c.Origin) || (acao == "*" && all)) {
			return vk.Failf("%s: Access-Control-Allow-Origin is %q, want %q (or '*' only when all origins are allowed: %v)", ctx, acao, strings.ToLower(c.Origin), all)
		}
	}
	if acao == "*" && acac == "true" {
		return vk.Failf("%s: '*' together with Allow-Credentials: true", ctx)
	}
	if acac != "" && (!c.Credentials || acao == "") {
		return vk.Failf("%s: Allow-Credentials %q without credentials being configured / without an allowed origin (ACAO %q)", ctx, acac, acao)
	}
	hasVaryOrigin := false
	for _, v := range strings.Split(vary, ",") {
		if strings.EqualFold(strings.TrimSpace(v), "Origin") {
			hasVaryOrigin = true
		}
	}
	if acao != "" && acao != "*" && !hasVaryOrigin {
		// (also when every origin is allowed: a response that names the request's own origin is a function of it)
		return vk.Failf("%s: Access-Control-Allow-Origin names the request's origin %q but Vary is %q", ctx, acao, vary)
	}
	if !all && !hasVaryOrigin {
		return vk.Failf("%s: the response depends on the Origin but Vary is %q", ctx, vary)
	}
	preflight := c.Method == "OPTIONS" && c.HasOrigin && c.Origin != "" && c.ACRM != ""
	if preflight {
		if r.Response.StatusCode() != 204 || ran {
			return vk.Failf("%s: preflight answered %d, handler ran: %v (want 204, not run)", ctx, r.Response.StatusCode(), ran)
		}
		wantMethods := c.AllowMethods
		if len(wantMethods) == 0 {
			wantMethods = cors.ConfigDefault.AllowMethods
		}
		if got := get("Access-Control-Allow-Methods"); got != strings.Join(wantMethods, ", ") {
			return vk.Failf("%s: preflight Allow-Methods %q, want %q", ctx, got, strings.Join(wantMethods, ", "))
		}
		wantHeaders := strings.Join(c.AllowHeaders, ", ")
		if len(c.AllowHeaders) == 0 {
			wantHeaders = c.ACRH
		}
		if got := get("Access-Control-Allow-Headers"); got != wantHeaders {
			return vk.Failf("%s: preflight Allow-Headers %q, want %q", ctx, got, wantHeaders)
		}
		if got := get("Access-Control-Allow-Private-Network"); got != "" && !(c.PrivateNetwork && c.ACRPN == "true") {
			return vk.Failf("%s: Allow-Private-Network %q without being configured and requested", ctx, got)
		}
	} else if !ran {
		return vk.Failf("%s: not a preflight but the handler did not run (status %d)", ctx, r.Response.StatusCode())
	}
	v := vk.Verdict{NonTrivial: preflight || (c.HasOrigin && lookalike(c))}
	if allowed {
		v.Classes = append(v.Classes, "allowed")
		if acao == "" && !(c.Method == "OPTIONS" && !preflight) {
			v.Classes = append(v.Classes, "info:allowed-without-acao")
			vk.Rec.Extra("example_allowed_without_acao", ctx)
		}
	} else {
		v.Classes = append(v.Classes, "denied")
	}
	if preflight {
		v.Classes = append(v.Classes, "preflight")
	}
	if all {
		v.Classes = append(v.Classes, "allow-all")
	}
	return v
}

func lookalike(c Case) bool {
	lo := strings.ToLower(c.Origin)
	for _, e := range c.Entries {
		if e.Star {
			continue
		}
		if strings.Contains(lo, strings.ToLower(e.Host)) && lo != strings.ToLower(strings.TrimSpace(strings.TrimSuffix(e.String(), "/"))) {
			return true
		}
	}
	return false
}

// ---- generator ------------------------------------------------------------------------------------------

var domains = []string{"example.com", "ex.org", "a.example.com", "Example.COM"}

func genCase(t *rapid.T) Case {
	c := Case{Credentials: rapid.Bool().Draw(t, "creds"), PrivateNetwork: rapid.Bool().Draw(t, "pn"), MaxAge: rapid.SampledFrom([]int{-1, 0, 0, 600}).Draw(t, "maxage")}
	ne := rapid.IntRange(0, 3).Draw(t, "ne")
	for i := 0; i < ne; i++ {
		e := Entry{Scheme: rapid.SampledFrom([]string{"http", "https"}).Draw(t, "s"), Host: rapid.SampledFrom(domains).Draw(t, "h"),
			Port: rapid.SampledFrom([]string{"", "", "", "8080", "443", "80"}).Draw(t, "p"), Wild: rapid.Bool().Draw(t, "w"),
			Pad: rapid.SampledFrom([]string{"", "", "", "sp", "slash"}).Draw(t, "pad")}
		if rapid.IntRange(0, 7).Draw(t, "star") == 0 {
			e = Entry{Star: true}
		}
		if rapid.IntRange(0, 11).Draw(t, "blank") == 0 {
			e = Entry{Blank: rapid.SampledFrom([]string{"empty", "space"}).Draw(t, "blankkind")}
		}
		c.Entries = append(c.Entries, e)
	}
	if rapid.IntRange(0, 3).Draw(t, "func") == 0 {
		c.FuncAllows = []string{"https://func.test", "http://func.test:81", "https://m\u00fcnchen.func.test"}
		if rapid.Bool().Draw(t, "funcstar") {
			c.FuncAllows = append(c.FuncAllows, "*") // an allow function that lets the literal value "*" through
		}
	}
	if rapid.Bool().Draw(t, "am") {
		c.AllowMethods = rapid.SliceOfN(rapid.SampledFrom([]string{"GET", "POST", "PUT", "DELETE"}), 1, 3).Draw(t, "methods")
	}
	if rapid.Bool().Draw(t, "ah") {
		c.AllowHeaders = rapid.SliceOfN(rapid.SampledFrom([]string{"X-A", "Content-Type", "Authorization"}), 1, 2).Draw(t, "aheaders")
		if rapid.IntRange(0, 4).Draw(t, "ahblank") == 0 {
			c.AllowHeaders = []string{""} // a configured list that names nothing (strings.Split of an unset variable): no header is allowed
		}
	}
	if rapid.Bool().Draw(t, "eh") {
		c.ExposeHeaders = []string{"X-Exposed"}
	}
	genRequest(t, &c)
	if rapid.IntRange(0, 2).Draw(t, "more") == 0 {
		n := rapid.IntRange(1, 3).Draw(t, "nmore")
		for i := 0; i < n; i++ {
			c2 := c
			genRequest(t, &c2)
			c.Then = append(c.Then, Probe{c2.Method, c2.HasOrigin, c2.Origin, c2.ACRM, c2.ACRH, c2.ACRPN})
		}
	}
	return c
}

// genRequest draws the request part of a case
func genRequest(t *rapid.T, c *Case) {
	c.ACRM, c.ACRH, c.ACRPN = "", "", ""
	c.Method = rapid.SampledFrom([]string{"GET", "POST", "OPTIONS", "OPTIONS"}).Draw(t, "m")
	c.HasOrigin = rapid.IntRange(0, 9).Draw(t, "hasorigin") != 0
	// origin derived from an entry
	var base Entry
	var real []Entry
	for _, e := range c.Entries {
		if !e.Star && e.Blank == "" {
			real = append(real, e)
		}
	}
	if len(real) > 0 {
		base = rapid.SampledFrom(real).Draw(t, "base")
	} else {
		base = Entry{Scheme: "https", Host: "example.com"}
	}
	scheme := rapid.SampledFrom([]string{base.Scheme, base.Scheme, "http", "https"}).Draw(t, "os")
	port := rapid.SampledFrom([]string{base.Port, base.Port, "", "", "8080", "81", "443", "80"}).Draw(t, "op") // (a port is part of the origin, whatever its number)
	bh := base.Host
	same := []byte(bh) // a look-alike of the same length: another first letter
	if same[0] == 'e' {
		same[0] = 'f'
	} else {
		same[0] = 'e'
	}
	host := rapid.SampledFrom([]string{bh, string(same), string(same), "sub." + bh, "a.b." + bh, "evil" + bh, bh + ".evil.com", "x" + bh, strings.ToUpper(bh), "SUB." + bh, strings.ToLower(bh), "sub." + strings.ToLower(bh), "func.test",
		// hosts with an empty first label (a URL parser accepts them): still no sub-domain of the entry's host
		// (".host" itself is left out: whether an empty label is a sub-domain is not something the statement settles)
		".evil" + bh}).Draw(t, "oh")
	c.Origin = scheme + "://" + host
	if port != "" {
		c.Origin += ":" + port
	}
	switch rapid.IntRange(0, 14).Draw(t, "special") {
	case 0:
		c.Origin = "null"
	case 1:
		c.Origin = ""
	case 2:
		// (the last two: capitals outside ASCII - "in lower case" is not an ASCII-only notion)
		c.Origin = rapid.SampledFrom([]string{"https://func.test", "http://func.test:81", "HTTPS://FUNC.TEST", "https://M\u00dcNCHEN.func.test", "https://m\u00fcnchen.func.test", "*", "*"}).Draw(t, "fo")
	}
	if n := len(c.FuncAllows); n > 0 && c.FuncAllows[n-1] == "*" && rapid.IntRange(0, 2).Draw(t, "starorigin") == 0 {
		c.Origin = "*"
	}
	if c.Method == "OPTIONS" && rapid.IntRange(0, 3).Draw(t, "pre") != 0 {
		c.ACRM = rapid.SampledFrom([]string{"PUT", "GET", "DELETE", "PATCH", "PROPFIND", "patch", "QUERY"}).Draw(t, "acrm")
		c.ACRH = rapid.SampledFrom([]string{"", "X-Custom", "content-type, x-a"}).Draw(t, "acrh")
		c.ACRPN = rapid.SampledFrom([]string{"", "true", "false"}).Draw(t, "acrpn")
	}
}

var propCORS = vk.Register(&vk.Prop[Case]{Property: property, Name: "policy", Gen: genCase, Check: check, Quick: 40000, Thorough: 250000})

func TestPolicy(t *testing.T) { propCORS.Run(t) }

// FuzzOrigin: the origin string itself is arbitrary bytes; only the negative universal part of the oracle applies to
// values that are not serialized origins (never '*'+credentials; ACAO only equal to the lower-cased origin).
type RawCase struct {
	Entries     []Entry
	Credentials bool
	Origin      string
}

func checkRaw(rc RawCase) vk.Verdict {
	for _, b := range []byte(rc.Origin) {
		if b == '\r' || b == '\n' || b == 0 {
			return vk.Verdict{Skip: true}
		}
	}
	c := Case{Entries: rc.Entries, Credentials: rc.Credentials, Method: "GET", HasOrigin: true, Origin: rc.Origin}
	// only serialized origins (scheme://host[:port], non-empty labels of letters, digits and '-') are in the domain of the
	// statement: browsers never send anything else, and reflecting such a value gives an attacker nothing
	scheme, host, port, ok := splitOrigin(strings.ToLower(rc.Origin))
	if !ok || (scheme != "http" && scheme != "https") {
		return vk.Verdict{Skip: true}
	}
	for _, l := range strings.Split(host, ".") {
		if l == "" {
			return vk.Verdict{Skip: true}
		}
		for _, r := range l {
			if !(r >= 'a' && r <= 'z' || r >= '0' && r <= '9' || r == '-') {
				return vk.Verdict{Skip: true}
			}
		}
	}
	for _, r := range port {
		if r < '0' || r > '9' {
			return vk.Verdict{Skip: true}
		}
	}
	return check(c)
}

var propRaw = vk.Register(&vk.Prop[RawCase]{Property: property, Name: "raworigin", Quick: 15000, Thorough: 100000, Check: checkRaw,
	Gen: func(t *rapid.T) RawCase {
		rc := RawCase{Credentials: rapid.Bool().Draw(t, "creds")}
		ne := rapid.IntRange(1, 2).Draw(t, "ne")
		for i := 0; i < ne; i++ {
			rc.Entries = append(rc.Entries, Entry{Scheme: rapid.SampledFrom([]string{"http", "https"}).Draw(t, "s"), Host: rapid.SampledFrom(domains[:3]).Draw(t, "h"),
				Port: rapid.SampledFrom([]string{"", "8080"}).Draw(t, "p"), Wild: rapid.Bool().Draw(t, "w")})
		}
		rc.Origin = rapid.SampledFrom([]string{"http://", "https://", "HTTPS://", "ftp://"}).Draw(t, "scheme")
		lab := rapid.SampledFrom([]string{"example", "com", "evil", "sub", "ex", "org", "a", "x-", "example.com", "com.evil", "xexample", "EXAMPLE", "a.example", "0"})
		n := rapid.IntRange(1, 5).Draw(t, "n")
		for i := 0; i < n; i++ {
			if i > 0 {
				rc.Origin += rapid.SampledFrom([]string{".", ".", ".", "", "-"}).Draw(t, "dot")
			}
			rc.Origin += lab.Draw(t, "label")
		}
		rc.Origin += rapid.SampledFrom([]string{"", "", ":8080", ":80", ":x", ":80/", "/"}).Draw(t, "port")
		return rc
	}})

func TestRawOrigin(t *testing.T) { propRaw.Run(t) }
func FuzzRawOrigin(f *testing.F) { propRaw.Fuzz(f) }
