package c04

import (
	"fmt"
	"os"
	"runtime/debug"
	"strings"
	"testing"

	"github.com/gofiber/fiber/v3"
	"pgregory.net/rapid"

	"verifharness/vk"
)

const property = "C04"

func TestMain(m *testing.M) { vk.Main(m, property) }

func TestAAACorpus(t *testing.T)    { vk.TestCorpus(t, property) }
func TestAAAWitnesses(t *testing.T) { vk.TestWitnesses(t, property) }
func TestReplay(t *testing.T)       { vk.TestReplay(t) }

type Item struct {
	Kind   string // route | use | group | mount | chain
	Method string `json:",omitempty"`
	Path   string // path or prefix
	ID     string
	Next   bool
	GH     bool   `json:",omitempty"` // group has its own middleware
	Again  string `json:",omitempty"` // mount: the same sub-app is mounted a second time under this prefix (later sibling)
	Multi  bool   `json:",omitempty"` // mount: both prefixes are given in one call, app.Use([]string{Path, Again}, sub)
	SubCfg int    `json:",omitempty"` // mount: the sub-app's own routing config: 0 = same as the parent, 1..4 = CaseSensitive/StrictRouting combinations (the serving app's config is what counts)
	Items  []Item `json:",omitempty"`
}

type Case struct {
	CS, Strict   bool
	Items        []Item
	Method, Path string
	Repeat       int  `json:",omitempty"` // build and run this many times (map-order dependent behaviour)
	Late         int  `json:",omitempty"` // the last Late top-level items are registered after the app served a request, followed by RebuildTree
	Running      bool `json:",omitempty"` // with Late: one running server - the handler is obtained once, before the warm-up request, and serves the probe too
	Started      bool `json:",omitempty"` // the app served a request before anything was registered or mounted (registration after the first start)
	// RootMethods: the root app's Config.RequestMethods: 0 = default, 1 = GET and POST only, 2 = default plus PURGE,
	// 3 = POST, GET, HEAD (another order). Sub-apps are created with the defaults, as fiber.New() does; the routes only
	// use GET and POST, which every variant knows, so the flat registration is the same table.
	RootMethods int `json:",omitempty"`
}

func rootMethods(k int) []string {
	switch k {
	case 1:
		return []string{"GET", "POST"}
	case 2:
		return append(append([]string{}, fiber.DefaultMethods...), "PURGE")
	case 3:
		return []string{"POST", "GET", "HEAD"}
	}
	return nil
}

type obs struct{ trace []string }

func mkH(o *obs, id string, next bool) fiber.Handler {
	return func(c fiber.Ctx) error {
		var ps []string
		for _, n := range c.Route().Params {
			ps = append(ps, n+"="+c.Params(n))
		}
		o.trace = append(o.trace, id+"["+strings.Join(ps, ",")+"]")
		if next {
			return c.Next()
		}
		return c.SendString(id)
	}
}

func groupPath(prefix, path string) string {
	if len(path) == 0 {
		return prefix
	}
	if path[0] != '/' {
		path = "/" + path
	}
	return strings.TrimRight(prefix, "/") + path
}

// mode: "mount" = real mounts (A); "group" = every mount replaced by a Group with the mount prefix holding the
// sub-app's registrations (B); inSubTop marks the top level of a (former) sub-app, where "" means "/".
func build(r fiber.Router, items []Item, o *obs, mode string, cfg fiber.Config, inSubTop bool) {
	for _, it := range items {
		p := it.Path
		if inSubTop && mode == "group" && p == "" && it.Kind != "mount" && it.Kind != "group" {
			p = "/"
		}
		switch it.Kind {
		case "route":
			r.Add(strings.Split(it.Method, "+"), p, mkH(o, it.ID, it.Next)) // "GET+POST": one registration for several methods
		case "use":
			r.Use(p, mkH(o, it.ID, it.Next))
		case "chain":
			rt := r.Route(p)
			for _, ci := range it.Items {
				rt = rt.Add([]string{ci.Method}, mkH(o, ci.ID, ci.Next))
			}
		case "group":
			var g fiber.Router
			if it.GH {
				g = r.Group(p, mkH(o, it.ID, true))
			} else {
				g = r.Group(p)
			}
			build(g, it.Items, o, mode, cfg, false)
		case "mount":
			if mode == "group" {
				build(r.Group(it.Path), it.Items, o, mode, cfg, true)
				if it.Again != "" {
					build(r.Group(it.Again), it.Items, o, mode, cfg, true)
				}
			} else {
				scfg := cfg
				scfg.RequestMethods = nil // a sub-app is its own app with its own (default) method list
				if it.SubCfg > 0 {
					scfg.CaseSensitive, scfg.StrictRouting = (it.SubCfg-1)&1 != 0, (it.SubCfg-1)&2 != 0
				}
				sub := fiber.New(scfg)
				build(sub, it.Items, o, mode, cfg, false)
				if it.Again != "" && it.Multi {
					r.Use([]string{it.Path, it.Again}, sub) // the list form of Use: one call, both prefixes
				} else {
					r.Use(it.Path, sub)
					if it.Again != "" {
						r.Use(it.Again, sub)
					}
				}
			}
		}
	}
}

// buildFlat registers everything at app level with full paths computed by the harness's own join (C).
func buildFlat(app *fiber.App, prefix string, nested bool, items []Item, o *obs, inSubTop bool) {
	j := func(p string) string {
		if !nested {
			return p
		}
		return groupPath(prefix, p)
	}
	for _, it := range items {
		p := it.Path
		if inSubTop && p == "" && it.Kind != "mount" && it.Kind != "group" {
			p = "/"
		}
		switch it.Kind {
		case "route":
			app.Add(strings.Split(it.Method, "+"), j(p), mkH(o, it.ID, it.Next))
		case "use":
			app.Use(j(p), mkH(o, it.ID, it.Next))
		case "chain":
			for _, ci := range it.Items {
				app.Add([]string{ci.Method}, j(p), mkH(o, ci.ID, ci.Next))
			}
		case "group":
			gp := j(p)
			if it.GH {
				app.Use(gp, mkH(o, it.ID, true))
			}
			buildFlat(app, gp, true, it.Items, o, false)
		case "mount":
			buildFlat(app, j(it.Path), true, it.Items, o, true)
			if it.Again != "" {
				buildFlat(app, j(it.Again), true, it.Items, o, true)
			}
		}
	}
}

type outcome struct {
	s     string
	trace int
	sub   bool
}

func runOne(c Case, mode string) (out outcome, panicked string) {
	cfg := fiber.Config{CaseSensitive: c.CS, StrictRouting: c.Strict, RequestMethods: rootMethods(c.RootMethods)}
	o := &obs{}
	defer func() {
		if r := recover(); r != nil {
			panicked = fmt.Sprintf("%v\n%s", r, debug.Stack())
		}
	}()
	app := fiber.New(cfg)
	if c.Started {
		vk.Do(app, "GET", "/warm-up") // runs the start-up processing with nothing registered yet
	}
	reg := func(items []Item) {
		switch mode {
		case "flat":
			buildFlat(app, "", false, items, o, false)
		default:
			build(app, items, o, mode, cfg, false)
		}
	}
	if c.Late > 0 && c.Late < len(c.Items) {
		// the table grows while the app is in service: the first items, a served request, the remaining items and the
		// documented RebuildTree
		reg(c.Items[:len(c.Items)-c.Late])
		h := app.Handler()
		vk.DoHandler(h, "GET", "/warm-up")
		o.trace = nil
		reg(c.Items[len(c.Items)-c.Late:])
		app.RebuildTree()
		if c.Running {
			resp := vk.DoHandler(h, c.Method, c.Path)
			out.s = fmt.Sprintf("trace=%v status=%d body=%q", o.trace, resp.Response.StatusCode(), resp.Response.Body())
			out.trace = len(o.trace)
			return out, ""
		}
	} else {
		reg(c.Items)
	}
	resp := vk.Do(app, c.Method, c.Path)
	out.s = fmt.Sprintf("trace=%v status=%d body=%q", o.trace, resp.Response.StatusCode(), resp.Response.Body())
	out.trace = len(o.trace)
	return out, ""
}

func hasKind(items []Item, kind string) bool {
	for _, it := range items {
		if it.Kind == kind || hasKind(it.Items, kind) {
			return true
		}
	}
	return false
}

func subIDs(items []Item, inside bool, ids map[string]bool) {
	for _, it := range items {
		if inside {
			ids[it.ID] = true
		}
		in := inside || it.Kind == "mount" || it.Kind == "group"
		subIDs(it.Items, in, ids)
	}
}

func check(c Case) vk.Verdict {
	if strings.HasPrefix(c.Path, "//") || strings.ContainsAny(c.Path, "?#") {
		return vk.Verdict{Skip: true}
	}
	rep := c.Repeat
	if rep < 1 {
		rep = 1
	}
	v := vk.Verdict{}
	for i := 0; i < rep; i++ {
		a, pa := runOne(c, "mount")
		b, pb := runOne(c, "group")
		f, pf := runOne(c, "flat")
		ctx := fmt.Sprintf("%s %s (cs=%v strict=%v)", c.Method, c.Path, c.CS, c.Strict)
		if pb != "" || pf != "" {
			return vk.Failf("%s: composition without mounts panicked: %s%s", ctx, pb, pf)
		}
		if pa != "" {
			return vk.Failf("%s: the composition with mounts panicked while the same tree built from groups answers %s:\n%s", ctx, b.s, pa)
		}
		if b.s != f.s {
			return vk.Failf("%s: Group/Route prefixes answer differently from full paths spelled at registration:\n group: %s\n flat : %s", ctx, b.s, f.s)
		}
		if a.s != b.s {
			return vk.Failf("%s: mounting answers differently from registering under a group with the mount prefix:\n mount: %s\n group: %s", ctx, a.s, b.s)
		}
		if i == 0 {
			ids := map[string]bool{}
			subIDs(c.Items, false, ids)
			for id := range ids {
				if strings.Contains(a.s, id+"[") {
					v.NonTrivial = true
				}
			}
			if a.trace >= 2 {
				v.Classes = append(v.Classes, "trace>=2")
			}
			if hasKind(c.Items, "mount") {
				v.Classes = append(v.Classes, "has-mount")
			}
			if v.NonTrivial {
				v.Classes = append(v.Classes, "reaches-sub-handler")
			}
		}
	}
	return v
}

// ---- generator ------------------------------------------------------------------------------------------

var itemPaths = []string{"/", "", "/a", "/a/", "/b", "/a/b", "/:x", "/*", "/a/:y", "/ab", "/:x/b", "/a/:y?", "/r/:id/*", "/+"}
var groupPrefixes = []string{"/", "/api", "/api/", "/v1", "/a", "/API", "/a/b", "/:g", "/v1-", "/w/*/v"}
var mountPrefixes = []string{"/m1", "/m2", "/m3/", "/M4", "/m5/x", "/:tenant", "/", "", "/v1-", "/api", "/a/b", "/w/*/v", "/p/+"}

type gen struct {
	t      *rapid.T
	ctr    int
	used   map[string]bool // full mount prefixes already used
	nested map[string]bool // ... by a sub-app that itself contains a mount (C04-b territory is avoided by construction)
}

func (g *gen) id() string { g.ctr++; return fmt.Sprintf("h%d", g.ctr) }

func normPrefix(p string) string {
	p = strings.ToLower(strings.TrimRight(p, "/"))
	if p == "" {
		p = "/"
	}
	return p
}

func (g *gen) items(depth int, full string) []Item {
	t := g.t
	n := rapid.IntRange(1, 4).Draw(t, "n")
	var out []Item
	for i := 0; i < n; i++ {
		k := rapid.IntRange(0, 11).Draw(t, "kind")
		switch {
		case k <= 3 || (depth == 0 && k <= 8):
			out = append(out, Item{Kind: "route", Method: rapid.SampledFrom([]string{"GET", "POST", "GET", "POST", "GET+POST", "POST+GET"}).Draw(t, "m"),
				Path: rapid.SampledFrom(itemPaths).Draw(t, "p"), ID: g.id(), Next: rapid.Bool().Draw(t, "next")})
		case k == 4 || (depth == 0 && k <= 10):
			out = append(out, Item{Kind: "use", Path: rapid.SampledFrom(itemPaths).Draw(t, "p"), ID: g.id(), Next: rapid.IntRange(0, 3).Draw(t, "next") > 0})
		case k == 5 || depth == 0:
			it := Item{Kind: "chain", Path: rapid.SampledFrom(itemPaths).Draw(t, "p"), ID: g.id()}
			nc := rapid.IntRange(1, 2).Draw(t, "nc")
			for j := 0; j < nc; j++ {
				it.Items = append(it.Items, Item{Kind: "route", Method: rapid.SampledFrom([]string{"GET", "POST"}).Draw(t, "cm"), ID: g.id(), Next: rapid.Bool().Draw(t, "cnext")})
			}
			out = append(out, it)
		case k <= 7:
			p := rapid.SampledFrom(groupPrefixes).Draw(t, "gpre")
			out = append(out, Item{Kind: "group", Path: p, ID: g.id(), GH: rapid.Bool().Draw(t, "gh"), Items: g.items(depth-1, groupPath(full, p))})
		default:
			p := rapid.SampledFrom(mountPrefixes).Draw(t, "mpre")
			fp := normPrefix(groupPath(full, p))
			it := Item{Kind: "mount", Path: p, ID: g.id(), Items: g.items(depth-1, groupPath(full, p))}
			// open finding C04-b needs two sub-apps on one full prefix AND a mount inside one of them: only that is avoided
			if g.used[fp] && (g.nested[fp] || hasKind(it.Items, "mount")) && os.Getenv("VK_C04_NOAVOID") == "" {
				vk.Rec.Excluded("avoided:C04-b(same full mount prefix, nested mount)")
				continue
			}
			g.used[fp] = true
			g.nested[fp] = g.nested[fp] || hasKind(it.Items, "mount")
			if rapid.IntRange(0, 2).Draw(t, "subcfg") == 0 {
				it.SubCfg = rapid.IntRange(1, 4).Draw(t, "subcfgv")
			}
			if rapid.IntRange(0, 5).Draw(t, "again") == 0 && !hasKind(it.Items, "mount") {
				p2 := rapid.SampledFrom([]string{"/again", "/m9/", "/:other"}).Draw(t, "mpre2")
				fp2 := normPrefix(groupPath(full, p2))
				if !g.used[fp2] {
					g.used[fp2] = true
					it.Again = p2
					it.Multi = rapid.Bool().Draw(t, "multi")
				}
			}
			out = append(out, it)
		}
	}
	return out
}

func collectPaths(prefix string, nested bool, items []Item, inSubTop bool, out *[]string) {
	for _, it := range items {
		p := it.Path
		if inSubTop && p == "" {
			p = "/"
		}
		full := p
		if nested {
			full = groupPath(prefix, p)
		}
		switch it.Kind {
		case "group":
			collectPaths(full, true, it.Items, false, out)
		case "mount":
			collectPaths(full, true, it.Items, true, out)
			if it.Again != "" {
				f2 := it.Again
				if nested {
					f2 = groupPath(prefix, it.Again)
				}
				collectPaths(f2, true, it.Items, true, out)
			}
		default:
			*out = append(*out, full)
		}
	}
}

func fillPath(t *rapid.T, p string) string {
	if p == "" {
		return "/"
	}
	if p[0] != '/' {
		p = "/" + p
	}
	segs := strings.Split(p, "/")
	for i, s := range segs {
		switch {
		case strings.HasPrefix(s, ":"):
			if strings.HasSuffix(s, "?") && rapid.Bool().Draw(t, "omit") {
				segs[i] = ""
			} else {
				segs[i] = rapid.SampledFrom([]string{"q", "acme", "7", "a", "b"}).Draw(t, "pv")
			}
		case s == "*":
			segs[i] = rapid.SampledFrom([]string{"r", "r/s", "a", ""}).Draw(t, "sv")
		case s == "+":
			segs[i] = rapid.SampledFrom([]string{"r", "r/s", "a"}).Draw(t, "sv")
		}
	}
	out := strings.Join(segs, "/")
	for strings.Contains(out, "//") {
		out = strings.ReplaceAll(out, "//", "/")
	}
	return out
}

func genCase(t *rapid.T) Case {
	c := Case{CS: rapid.Bool().Draw(t, "cs"), Strict: rapid.Bool().Draw(t, "strict"), Started: rapid.IntRange(0, 4).Draw(t, "started") == 0}
	g := &gen{t: t, used: map[string]bool{}, nested: map[string]bool{}}
	c.Items = g.items(rapid.IntRange(1, 3).Draw(t, "depth"), "")
	if len(c.Items) > 1 && rapid.IntRange(0, 3).Draw(t, "late") == 0 {
		c.Late = rapid.IntRange(1, len(c.Items)-1).Draw(t, "nlate")
		c.Running = rapid.Bool().Draw(t, "running")
	}
	c.Method = rapid.SampledFrom([]string{"GET", "POST"}).Draw(t, "m")
	if rapid.IntRange(0, 3).Draw(t, "rootmethods") == 0 {
		c.RootMethods = rapid.IntRange(1, 3).Draw(t, "rootmethodsv")
	}
	var paths []string
	collectPaths("", false, c.Items, false, &paths)
	if len(paths) > 0 && rapid.IntRange(0, 4).Draw(t, "fromtree") != 0 {
		c.Path = fillPath(t, rapid.SampledFrom(paths).Draw(t, "treepath"))
		switch rapid.IntRange(0, 7).Draw(t, "mut") {
		case 0:
			c.Path = strings.ToUpper(c.Path)
		case 1:
			if strings.HasSuffix(c.Path, "/") && len(c.Path) > 1 {
				c.Path = c.Path[:len(c.Path)-1]
			} else {
				c.Path += "/"
			}
		case 2:
			c.Path += "/extra"
		}
	} else {
		segs := rapid.SliceOfN(rapid.SampledFrom([]string{"api", "v1", "a", "b", "ab", "API", "q", "m1", "m2", "m3", "M4", "m5", "x", "v1-", "again"}), 0, 4).Draw(t, "segs")
		c.Path = "/" + strings.Join(segs, "/")
		if rapid.Bool().Draw(t, "slash") && len(segs) > 0 {
			c.Path += "/"
		}
	}
	return c
}

var propMount = vk.Register(&vk.Prop[Case]{
	Property: property, Name: "mount", Gen: genCase, Check: check, Classify: classify,
	Quick: 25000, Thorough: 150000,
})

func TestMount(t *testing.T) { propMount.Run(t) }

// classify recognises open finding C04-b: two sub-apps share one full mount prefix and one of them contains a mount.
func classify(c Case, fail string) string {
	if !strings.Contains(fail, "panicked") {
		return ""
	}
	seen := map[string]int{}
	nested := false
	var walk func(items []Item, full string)
	walk = func(items []Item, full string) {
		for _, it := range items {
			switch it.Kind {
			case "group":
				walk(it.Items, groupPath(full, it.Path))
			case "mount":
				fp := normPrefix(groupPath(full, it.Path))
				seen[fp]++
				if hasKind(it.Items, "mount") {
					nested = true
				}
				walk(it.Items, groupPath(full, it.Path))
			}
		}
	}
	walk(c.Items, "")
	for _, n := range seen {
		if n >= 2 && nested {
			return "C04-b"
		}
	}
	return ""
}
func FuzzMount(f *testing.F) { propMount.Fuzz(f) }
