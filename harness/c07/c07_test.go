package c07

import (
	"bytes"
	"compress/gzip"
	"errors"
	"fmt"
	"runtime"
	"strings"
	"sync"
	"sync/atomic"
	"testing"
	"time"

	"github.com/gofiber/fiber/v3"
	"pgregory.net/rapid"

	"verifharness/vk"
)

const property = "C07"

func TestMain(m *testing.M) { vk.Main(m, property) }

func TestAAACorpus(t *testing.T)    { vk.TestCorpus(t, property) }
func TestAAAWitnesses(t *testing.T) { vk.TestWitnesses(t, property) }
func TestReplay(t *testing.T)       { vk.TestReplay(t) }

// ---- the application under test --------------------------------------------------------------------------

type customCtx struct{ fiber.DefaultCtx }

type Helper struct {
	Name string
	Args []string
}

var configs = []fiber.Config{
	{},
	{Immutable: true, UnescapePath: true},
	{BodyLimit: 64, ReadBufferSize: 512},
	{RequestMethods: []string{"GET", "POST", "HEAD", "FOO"}},
	{TrustProxy: true, ProxyHeader: "X-Forwarded-For", EnableIPValidation: true, EnableSplittingOnParsers: true, TrustProxyConfig: fiber.TrustProxyConfig{Private: true}},
	{},                                   // + custom ctx
	{BodyLimit: 64, ReadBufferSize: 512}, // + an application ErrorHandler that looks at the request (every accessor) before it answers like the default one
	{RequestMethods: []string{"GET", "HEAD"}}, // + the same ErrorHandler, reduced method set
	{BodyLimit: -1}, // not a positive limit: the server's default limit applies
}

const nConfigs = 9

type world struct {
	app     *fiber.App
	helpers []Helper
	ran     atomic.Int64 // (handlers of several connections run at once in the parallel property)
	hpanic  string
}

const bodyMarker = "BODY-OK"

func newWorld(cfgIdx int, helpers []Helper) *world {
	w := &world{helpers: helpers}
	cfg := configs[cfgIdx%nConfigs]
	cfg.Views = vk.Views{}
	if k := cfgIdx % nConfigs; k == 6 || k == 7 {
		cfg.ErrorHandler = func(c fiber.Ctx, err error) error {
			_ = vk.Observe(c, "k") // also runs for requests the server rejected before routing (bad method, too large, malformed)
			code := fiber.StatusInternalServerError
			var e *fiber.Error
			if errors.As(err, &e) {
				code = e.Code
			}
			c.Set(fiber.HeaderContentType, fiber.MIMETextPlainCharsetUTF8)
			return c.Status(code).SendString(err.Error())
		}
	}
	app := fiber.New(cfg)
	if cfgIdx%nConfigs == 5 {
		app.NewCtxFunc(func(app *fiber.App) fiber.CustomCtx { return &customCtx{DefaultCtx: *fiber.NewDefaultCtx(app)} })
	}
	app.Use(func(c fiber.Ctx) error { return c.Next() })
	methods := app.Config().RequestMethods
	endpoint := func(c fiber.Ctx) error {
		w.ran.Add(1)
		_ = vk.Observe(c, "k")
		_ = c.Subdomains(1)
		_ = c.Subdomains(5)
		_ = c.Port()
		if mf, err := c.MultipartForm(); err == nil && mf != nil {
			_ = len(mf.Value) + len(mf.File)
		}
		_, _ = c.FormFile("f")
		_ = c.Req().Get("X-A")
		_ = c.Res().Get("X-B")
		_ = c.String()
		_ = c.Get("Content-Encoding")
		// the conditional-GET recipe: with a validator on the response Fresh()/Stale() reach the If-None-Match list parser
		c.Set(fiber.HeaderETag, `W/"v1"`)
		c.Set(fiber.HeaderLastModified, "Mon, 02 Jan 2006 15:04:05 GMT")
		_ = c.Fresh()
		_ = c.Stale()
		return w.runHelpers(c)
	}
	app.Add(methods, "/o/:p/*", endpoint)
	// more route shapes for the matcher (untrusted paths are matched against every pattern of the application)
	for _, p := range []string{"/api/:version/users/:id?", "/f/:name.:ext", "/d/:from-:to", "/w/*/end", "/g/+/x/:rest?", "/n/:id<int;min(1)>/edit/:tab?"} {
		app.Add(methods, p, endpoint)
	}
	app.Handler()
	w.app = app
	return w
}

func arg(a []string, i int) string {
	if i < len(a) {
		return a[i]
	}
	return ""
}

func (w *world) runHelpers(c fiber.Ctx) error {
	terminal := false
	for _, h := range w.helpers {
		a := h.Args
		switch h.Name {
		case "set":
			c.Set("X-Set", arg(a, 0))
		case "append":
			c.Append("X-App", arg(a, 0), arg(a, 1))
		case "location":
			c.Location(arg(a, 0))
		case "cookie":
			c.Cookie(&fiber.Cookie{Name: arg(a, 0), Value: arg(a, 1), Path: arg(a, 2), Domain: arg(a, 3)})
		case "clearcookie":
			c.ClearCookie(arg(a, 0))
		case "links":
			c.Links(arg(a, 0), arg(a, 1))
		case "attachment":
			c.Attachment(arg(a, 0))
		case "type":
			c.Type("html", arg(a, 0))
		case "vary":
			c.Vary("Origin")
		case "json":
			terminal = true
			if err := c.JSON(fiber.Map{"k": "v"}, arg(a, 0)); err != nil {
				return err
			}
		case "jsonp":
			terminal = true
			if err := c.JSONP(fiber.Map{"k": "v"}, "cb"); err != nil {
				return err
			}
		case "redirect":
			terminal = true
			if err := c.Redirect().To(arg(a, 0)); err != nil {
				return err
			}
		case "flash":
			terminal = true
			lvl := uint8(0x21)
			if len(arg(a, 2)) > 0 {
				lvl = arg(a, 2)[0]
			}
			if err := c.Redirect().With(arg(a, 0), arg(a, 1), lvl).To("/next"); err != nil {
				return err
			}
		case "format":
			terminal = true
			mt := "text/plain"
			if arg(a, 0) != "" {
				mt += "; charset=" + arg(a, 0) // a media type with a parameter chosen at run time
			}
			if err := c.Format(fiber.ResFmt{MediaType: mt, Handler: func(c fiber.Ctx) error { return c.SendString(bodyMarker) }},
				fiber.ResFmt{MediaType: "application/json", Handler: func(c fiber.Ctx) error { return c.JSON(1) }}); err != nil {
				return err
			}
		case "download":
			c.Set("Content-Disposition", `attachment; filename="`+strings.NewReplacer("\r", "", "\n", "").Replace(arg(a, 0))+`"`)
		}
	}
	if !terminal {
		if err := c.SendString(bodyMarker); err != nil {
			return err
		}
	}
	if w.ends() {
		// Ctx.End(): "flushes the current response and closes the underlying connection" - what it flushes is the answer
		// to this request, under the same framing rules as any other (a HEAD request gets no body bytes)
		return c.End()
	}
	return nil
}

func (w *world) ends() bool {
	for _, h := range w.helpers {
		if h.Name == "end" {
			return true
		}
	}
	return false
}

// ---- requests --------------------------------------------------------------------------------------------

type Req struct {
	Method  string
	Target  string
	Proto   string      // HTTP/1.1 | HTTP/1.0 | garbage
	Headers [][2]string // Host is added unless NoHost
	NoHost  bool        `json:",omitempty"`
	Body    []byte      `json:",omitempty"`
	Chunked bool        `json:",omitempty"`
	Mut     string      `json:",omitempty"` // structured mutation applied when rendering
}

func (r Req) render() []byte {
	var b bytes.Buffer
	proto := r.Proto
	if proto == "" {
		proto = "HTTP/1.1"
	}
	fmt.Fprintf(&b, "%s %s %s\r\n", r.Method, r.Target, proto)
	if !r.NoHost {
		b.WriteString("Host: a.b.example.com\r\n")
	}
	for _, h := range r.Headers {
		switch r.Mut {
		case "bare-lf":
			fmt.Fprintf(&b, "%s: %s\n", h[0], h[1])
		default:
			fmt.Fprintf(&b, "%s: %s\r\n", h[0], h[1])
		}
	}
	body := r.Body
	switch r.Mut {
	case "dup-cl":
		fmt.Fprintf(&b, "Content-Length: %d\r\nContent-Length: %d\r\n", len(body), len(body)+1)
	case "huge-cl":
		b.WriteString("Content-Length: 99999999999999999999\r\n")
	case "neg-cl":
		b.WriteString("Content-Length: -1\r\n")
	case "nul-in-header":
		b.WriteString("X-Nul: a\x00b\r\n")
		if body != nil {
			fmt.Fprintf(&b, "Content-Length: %d\r\n", len(body))
		}
	case "oversize-header":
		fmt.Fprintf(&b, "X-Big: %s\r\n", strings.Repeat("z", 6000))
		if body != nil {
			fmt.Fprintf(&b, "Content-Length: %d\r\n", len(body))
		}
	case "header-no-colon":
		b.WriteString("X-Bad\r\n")
	case "bad-chunk":
		b.WriteString("Transfer-Encoding: chunked\r\n")
	default:
		if r.Chunked {
			b.WriteString("Transfer-Encoding: chunked\r\n")
		} else if body != nil {
			fmt.Fprintf(&b, "Content-Length: %d\r\n", len(body))
		}
	}
	b.WriteString("\r\n")
	if r.Chunked && r.Mut == "" {
		for len(body) > 0 {
			n := 7
			if n > len(body) {
				n = len(body)
			}
			fmt.Fprintf(&b, "%x\r\n%s\r\n", n, body[:n])
			body = body[n:]
		}
		b.WriteString("0\r\n\r\n")
	} else if r.Mut == "bad-chunk" {
		b.WriteString("ZZ\r\nxx\r\n0\r\n\r\n")
	} else if r.Mut == "trunc-body" && len(body) > 1 {
		b.Write(body[:len(body)/2])
	} else {
		b.Write(body)
	}
	return b.Bytes()
}

type Case struct {
	Config  int
	Reqs    []Req
	Helpers []Helper
}

func methodKnown(cfgIdx int, m string) bool {
	ms := configs[cfgIdx%nConfigs].RequestMethods
	if len(ms) == 0 {
		ms = fiber.DefaultMethods
	}
	for _, x := range ms {
		if x == m {
			return true
		}
	}
	return false
}

var allocMu sync.Mutex

var baseHeaders = map[string]bool{"date": true, "content-type": true, "content-length": true, "connection": true, "server": true, "allow": true, "vary": true,
	"transfer-encoding": true, "accept-ranges": true, "etag": true, "last-modified": true}

func implied(hs []Helper) (names map[string]bool, cookies map[string]bool) {
	names, cookies = map[string]bool{}, map[string]bool{}
	for _, h := range hs {
		switch h.Name {
		case "set":
			names["x-set"] = true
		case "append":
			names["x-app"] = true
		case "location", "redirect":
			names["location"] = true
		case "cookie":
			names["set-cookie"] = true
			cookies[arg(h.Args, 0)] = true
		case "clearcookie":
			names["set-cookie"] = true
			cookies["(cleared) "+arg(h.Args, 0)] = true
		case "links":
			names["link"] = true
		case "attachment", "download":
			names["content-disposition"] = true
		case "jsonp":
			names["x-content-type-options"] = true
		case "flash":
			names["location"] = true
			names["set-cookie"] = true
		}
	}
	names["set-cookie"] = true // a consumed flash cookie is expired by the response
	return
}

func hostile(s string) bool { return strings.ContainsAny(s, "\r\n") }

func check(c Case) vk.Verdict {
	if len(c.Reqs) == 0 {
		return vk.Verdict{Skip: true}
	}
	w := newWorld(c.Config, c.Helpers)
	var raw []byte
	for _, r := range c.Reqs {
		raw = append(raw, r.render()...)
	}
	// warm-up (fills pools) so that the allocation measurement sees the marginal cost only
	if _, err := vk.Wire(w.app, []byte("GET /o/w/x HTTP/1.1\r\nHost: h\r\n\r\n")); err != nil {
		return vk.Failf("config %d helpers %+v: warm-up request: %v", c.Config, c.Helpers, err)
	}
	w.ran.Store(0)
	allocMu.Lock()
	var m0, m1 runtime.MemStats
	runtime.ReadMemStats(&m0)
	out, err, hung := vk.WireTimeout(w.app, raw, 20*time.Second)
	runtime.ReadMemStats(&m1)
	allocMu.Unlock()
	ctx := fmt.Sprintf("config %d, helpers %+v, connection bytes %q", c.Config%nConfigs, c.Helpers, clip(raw, 700))
	if hung {
		return vk.Failf("%s: the server did not finish the connection within 20 s", ctx)
	}
	if err != nil {
		return vk.Failf("%s: %v", ctx, err)
	}
	bound := 8<<20 + 256*uint64(len(raw))
	for _, r := range c.Reqs {
		for _, h := range r.Headers {
			if strings.EqualFold(h[0], "Content-Encoding") {
				// a compressed body may be decoded up to the configured body limit, by each of the handler's (about eight)
				// accessors that look at the body; growing the buffer costs up to three times its final size
				limit := configs[c.Config%nConfigs].BodyLimit
				if limit <= 0 {
					limit = fiber.DefaultBodyLimit
				}
				bound += 8 * 3 * uint64(limit)
			}
		}
	}
	if d := m1.TotalAlloc - m0.TotalAlloc; d > bound {
		return vk.Failf("%s: serving %d bytes allocated %d bytes (bound %d)", ctx, len(raw), d, bound)
	}
	// responses can be attributed to requests up to (and including) the first request that is not well-formed: whatever
	// follows it may be read by the server as further (garbage) requests
	firstBad := len(c.Reqs)
	for i, r := range c.Reqs {
		if r.Mut != "" || !(r.Proto == "" || r.Proto == "HTTP/1.1") || !validMethodToken(r.Method) || !strings.HasPrefix(r.Target, "/") || strings.ContainsAny(r.Target, "\xff\xfe") {
			firstBad = i
			break
		}
	}
	// a request the server could not parse is answered with an error body and "Connection: close" whatever its method was
	head := func(i int) bool {
		return i <= firstBad && i < len(c.Reqs) && c.Reqs[i].Method == "HEAD" && c.Reqs[i].Mut == "" && (c.Reqs[i].Proto == "" || c.Reqs[i].Proto == "HTTP/1.1" || c.Reqs[i].Proto == "HTTP/1.0")
	}
	resps, perr := vk.ParseResponses(out, head)
	if perr != nil {
		// whether the server understood a not quite well-formed request as HEAD is its call: accept either reading
		head2 := func(i int) bool { return i < len(c.Reqs) && c.Reqs[i].Method == "HEAD" }
		if r2, e2 := vk.ParseResponses(out, head2); e2 == nil {
			resps, perr, head = r2, nil, head2
		}
	}
	if perr != nil && firstBad < len(c.Reqs) {
		// from the first not well-formed request on the server frames the remaining bytes its own way (a short body swallows
		// the start of the next request), so which of the later responses answer a HEAD is not known: accept any assignment
		for mask := 0; mask < 1<<min(len(c.Reqs)+1-firstBad, 7) && perr != nil; mask++ {
			hm := func(i int) bool {
				if i < firstBad {
					return c.Reqs[i].Method == "HEAD"
				}
				return i-firstBad < 7 && mask>>(i-firstBad)&1 == 1
			}
			if r2, e2 := vk.ParseResponses(out, hm); e2 == nil {
				resps, perr, head = r2, nil, hm
			}
		}
	}
	if perr != nil {
		return vk.Failf("%s: the server's output is not a well-formed HTTP/1.1 response stream: %v\noutput: %q", ctx, perr, clip(out, 1200))
	}
	if nerr := vk.NetHTTPAccepts(out, head); nerr != nil {
		return vk.Failf("%s: Go's net/http client refuses the server's output: %v\noutput: %q", ctx, nerr, clip(out, 1200))
	}
	if firstBad == len(c.Reqs) && len(resps) > len(c.Reqs) {
		return vk.Failf("%s: %d responses for %d well-formed requests\noutput: %q", ctx, len(resps), len(c.Reqs), clip(out, 1200))
	}
	names, cookies := implied(c.Helpers)
	v := vk.Verdict{Classes: []string{fmt.Sprintf("config:%d", c.Config%nConfigs)}}
	hostileArg := false
	for _, h := range c.Helpers {
		for _, a := range h.Args {
			hostileArg = hostileArg || hostile(a)
		}
	}
	for i, rp := range resps {
		if i > firstBad || i >= len(c.Reqs) {
			break
		}
		rq := c.Reqs[i]
		rctx := fmt.Sprintf("%s\nresponse %d (status %d) to %s %s [%s]", ctx, i, rp.Status, rq.Method, rq.Target, rq.Mut)
		wellFormed := rq.Mut == "" && (rq.Proto == "" || rq.Proto == "HTTP/1.1" || rq.Proto == "HTTP/1.0") && strings.HasPrefix(rq.Target, "/") && validMethodToken(rq.Method)
		if wellFormed && !methodKnown(c.Config, rq.Method) && rq.Body == nil && len(rq.render()) < 400 && rp.Status != 501 {
			return vk.Failf("%s: method %q is outside the configured set, want 501", rctx, rq.Method)
		}
		lineOK := (rq.Proto == "" || rq.Proto == "HTTP/1.1" || rq.Proto == "HTTP/1.0") && strings.HasPrefix(rq.Target, "/") && validMethodToken(rq.Method)
		mut := rq.Mut
		if !lineOK {
			mut = "" // the request line is rejected first; no mapping is asserted
		}
		switch mut {
		case "oversize-header":
			if rp.Status != 431 {
				return vk.Failf("%s: oversized header section, want 431", rctx)
			}
		case "header-no-colon", "nul-in-header", "neg-cl", "bad-chunk":
			if rp.Status/100 != 4 {
				return vk.Failf("%s: malformed request (%s), want a 4xx status", rctx, rq.Mut)
			}
		}
		if configs[c.Config%nConfigs].BodyLimit > 0 && rq.Mut == "" && !rq.Chunked && len(rq.Body) > configs[c.Config%nConfigs].BodyLimit && len(rq.render())-len(rq.Body) < 400 && lineOK && rp.Status != 413 {
			return vk.Failf("%s: body of %d bytes over the limit of %d, want 413", rctx, len(rq.Body), configs[c.Config%nConfigs].BodyLimit)
		}
		if rp.Status >= 500 && rp.Status != 501 {
			v.Classes = append(v.Classes, fmt.Sprintf("status:%d", rp.Status))
		}
		// header-set oracle: a helper argument must not add a field line or start the body early
		handlerAnswer := rp.Status < 400 // only the handler answers below 400 in these apps
		for _, h := range rp.Headers {
			ln := strings.ToLower(h[0])
			if baseHeaders[ln] {
				continue
			}
			if names[ln] || ln == "x-content-type-options" {
				continue
			}
			return vk.Failf("%s: unexpected response field %q: %q - no helper call implies it\noutput: %q", rctx, h[0], h[1], clip(out, 1200))
		}
		if handlerAnswer {
			if n := len(rp.Get("Location")); n > 1 {
				return vk.Failf("%s: %d Location fields", rctx, n)
			}
			nck := 0
			for _, sc := range rp.Get("Set-Cookie") {
				if !strings.HasPrefix(sc, "fiber_flash=") {
					nck++
				}
			}
			if nck > len(cookies) {
				return vk.Failf("%s: %d Set-Cookie fields for %d cookies set by the handler\noutput: %q", rctx, nck, len(cookies), clip(out, 1200))
			}
			if rp.Status == 200 && rq.Method != "HEAD" && !hasTerminal(c.Helpers) && string(rp.Body) != bodyMarker {
				return vk.Failf("%s: body is %q, the handler sent %q\noutput: %q", rctx, clip(rp.Body, 200), bodyMarker, clip(out, 1200))
			}
		}
	}
	v.NonTrivial = w.ran.Load() > 0 && (hostileArg || exercisesParsers(c))
	if w.ran.Load() > 0 {
		v.Classes = append(v.Classes, "handler-ran")
	}
	if hostileArg {
		v.Classes = append(v.Classes, "hostile-helper-arg")
	}
	if w.ends() && w.ran.Load() > 0 {
		v.Classes = append(v.Classes, "handler-called-End")
		if c.Reqs[0].Method == "HEAD" && firstBad > 0 {
			v.Classes = append(v.Classes, "End-answers-HEAD")
		}
	}
	for _, r := range c.Reqs {
		if r.Mut != "" {
			v.Classes = append(v.Classes, "mut:"+r.Mut)
		}
	}
	return v
}

func hasTerminal(hs []Helper) bool {
	for _, h := range hs {
		switch h.Name {
		case "json", "jsonp", "redirect", "flash", "format":
			return true
		}
	}
	return false
}

func validMethodToken(m string) bool {
	if m == "" {
		return false
	}
	for i := 0; i < len(m); i++ {
		if !(m[i] >= 'A' && m[i] <= 'Z') {
			return false
		}
	}
	return true
}

func exercisesParsers(c Case) bool {
	for _, r := range c.Reqs {
		for _, h := range r.Headers {
			switch strings.ToLower(h[0]) {
			case "range", "accept", "accept-charset", "accept-encoding", "accept-language", "x-forwarded-for", "content-encoding", "cookie", "if-none-match", "x-forwarded-host":
				return true
			}
		}
	}
	return false
}

func clip(b []byte, n int) []byte {
	if len(b) > n {
		return append(append([]byte{}, b[:n]...), "…"...)
	}
	return b
}

// ---- generator ------------------------------------------------------------------------------------------

var hostileArgs = []string{"v\r\nX-Injected: 1", "a\r\n\r\nINJECTED-BODY", "x\ny", "x\ry", "plain", "a b", "a;b", `q"uote`, "tab\there", "ünï", "", "/y\r\nSet-Cookie: evil=1", "a, b", "%0d%0a", "long" + strings.Repeat("x", 300)}

func genHelpers(t *rapid.T) []Helper {
	n := rapid.IntRange(0, 4).Draw(t, "nhelpers")
	var hs []Helper
	a := func(label string) string {
		if rapid.IntRange(0, 2).Draw(t, label+"mode") != 0 {
			return rapid.SampledFrom(hostileArgs).Draw(t, label)
		}
		// free composition of line-break fragments: every order of CR and LF around an injected field line / body
		frag := rapid.SampledFrom([]string{"\r", "\n", "\r\n", "\n\r", "X-Injected: 1", "INJECTED-BODY", "/home", "a", " ", "\t", "v", ";", "=", "%0d", "%0a", "%0D%0A", "%250a", "%250d", "%25", "%"})
		n := rapid.IntRange(1, 6).Draw(t, label+"n")
		var sb strings.Builder
		for i := 0; i < n; i++ {
			sb.WriteString(frag.Draw(t, label+"f"))
		}
		return sb.String()
	}
	tok := func(label string) string {
		return rapid.SampledFrom([]string{"n", "sid", "a-b", "n\r\nX-Injected: 1", "n\nm", "x y", "na;me"}).Draw(t, label)
	}
	for i := 0; i < n; i++ {
		switch rapid.SampledFrom([]string{"set", "append", "location", "cookie", "clearcookie", "links", "attachment", "type", "vary", "json", "jsonp", "redirect", "flash", "format", "download"}).Draw(t, "helper") {
		case "set":
			hs = append(hs, Helper{"set", []string{a("v")}})
		case "append":
			hs = append(hs, Helper{"append", []string{a("v1"), a("v2")}})
		case "location":
			hs = append(hs, Helper{"location", []string{a("loc")}})
		case "cookie":
			hs = append(hs, Helper{"cookie", []string{tok("cname"), a("cval"), a("cpath"), a("cdomain")}})
		case "clearcookie":
			if rapid.Bool().Draw(t, "cctok") {
				hs = append(hs, Helper{"clearcookie", []string{tok("ccname")}})
			} else {
				hs = append(hs, Helper{"clearcookie", []string{a("ccname")}}) // e.g. a name taken from the query string
			}
		case "links":
			hs = append(hs, Helper{"links", []string{a("link"), a("rel")}})
		case "attachment":
			hs = append(hs, Helper{"attachment", []string{a("file")}})
		case "type":
			hs = append(hs, Helper{"type", []string{a("charset")}})
		case "vary":
			hs = append(hs, Helper{"vary", nil})
		case "json":
			hs = append(hs, Helper{"json", []string{a("ctype")}})
		case "jsonp":
			hs = append(hs, Helper{"jsonp", nil})
		case "redirect":
			hs = append(hs, Helper{"redirect", []string{a("to")}})
		case "flash":
			hs = append(hs, Helper{"flash", []string{a("fk"), a("fv"), rapid.SampledFrom([]string{"!", "A", "\x00", "\n", ";", "\xff"}).Draw(t, "flvl")}})
		case "format":
			if rapid.Bool().Draw(t, "fmtparam") {
				hs = append(hs, Helper{"format", []string{a("fmt")}})
			} else {
				hs = append(hs, Helper{"format", nil})
			}
		case "download":
			hs = append(hs, Helper{"download", []string{a("dl")}})
		}
	}
	return hs
}

var gzBomb = gz(make([]byte, 32<<20))

func gz(b []byte) []byte {
	var buf bytes.Buffer
	zw := gzip.NewWriter(&buf)
	_, _ = zw.Write(b)
	_ = zw.Close()
	return buf.Bytes()
}

func genReq(t *rapid.T) Req {
	r := Req{Method: rapid.SampledFrom([]string{"GET", "GET", "GET", "GET", "GET", "POST", "POST", "POST", "HEAD", "HEAD", "PUT", "DELETE", "PATCH", "OPTIONS", "FOO", "PURGE", "get", "G T", ""}).Draw(t, "method"),
		Target: rapid.SampledFrom([]string{"/o/x/y", "/o/x/y", "/o/x/y", "/o/x/y?a=1&b=2&b=3&n=7", "/o/x/y?a=1&b=2&b=3&n=7", "/o/sub/deep/er?a=%20x", "/o/%41/z%2Fw?a=%zz", "/o/x/", "/o/x/y?n=abc", "/o/x", "/", "/nope", "*", "http://evil.test/o/x/y", "/o/x/y?" + strings.Repeat("k=v&", 40), "/o/\xff\xfe/y", "//o/x/y", "/o/x/y#frag", "o/x/y", "",
			// percent signs that are not an escape: cut off at the end of the path, alone, followed by non-hex digits
			"/o/x/y%2", "/o/x/%4", "/o/x/y%", "/o/x/%zz", "/o/x/%2?a=1", "/o/%/y%", "//", "///", "/o/x//",
			// paths that nearly match the other patterns: the constant behind a parameter followed by something else, empty values
			"/api/v1/users2", "/api/v1/users.js", "/api/v1/users", "/api/v1/users/7", "/api/users/users/users", "/f/a.b", "/f/a.", "/f/.b", "/f/a.b.c", "/d/1-2", "/d/-", "/d/a-b-c-",
			"/w/a/b/end", "/w//end", "/w/end", "/w/a/endend", "/g/a/x", "/g//x/", "/g/a/x/x/x", "/n/7/edit", "/n/0/edit/t", "/n/99999999999999999999/edit", "/n//edit/"}).Draw(t, "target"),
		Proto: rapid.SampledFrom([]string{"", "", "", "", "", "", "", "", "", "HTTP/1.0", "HTTP/1.0", "HTTP/2.0", "HTTP/000", "XTTP/1.1"}).Draw(t, "proto")}
	add := func(k string, vals []string) {
		if rapid.IntRange(0, 3).Draw(t, "has"+k) == 0 {
			r.Headers = append(r.Headers, [2]string{k, rapid.SampledFrom(vals).Draw(t, "v"+k)})
		}
	}
	add("Range", []string{"bytes=0-5", "bytes=0-5,10-", "bytes=-5", "bytes=5-1", "bytes=", "bytes=a-b", "items=0-1", "bytes=0-99999999999999999999", "bytes=-", "bytes=0-0,-1", "=", "bytes=1-2-3"})
	add("Accept", []string{"text/*;q=0.5, */*", "*/*;q=0", "text/html;level=1;q=0.9, application/json", `text/plain;title="a, b";q=1`, ";q=", ",,,", "a/b;q=1.5", strings.Repeat("a/b,", 200),
		// parameterised ranges that no offer satisfies in front of one that matches, several parameterised ranges at once
		"text/plain;format=flowed, */*", "text/html;level=1, text/html;level=2;q=0.5, */*;q=0.1", "application/json;v=2, text/*", `text/html;a="x\"y";b=c, text/plain;format=fixed;q=0.9, */*;q=0.8`,
		// parameters that need cleaning up (empty ones, tabs) around quoted strings that are cut off - behind a backslash too
		`text/html;;a="b\`, "text/html;\ta=\"b\\", `text/plain;;a="b`, `*/*;;a="\\\`, `text/html; ;q="`, "text/html;;a=\"b\\\"\\",
		// ranges that end at, or one byte behind, their ';'
		"text/html;", "text/html; ", "text/plain;q", "*/*;x, text/plain", ";", "a/b;, c/d; "})
	add("Accept-Charset", []string{"utf-8, iso-8859-1;q=0.5", "*", ";;;", "utf-8;", "utf-8;q"})
	add("Accept-Encoding", []string{"gzip, br;q=0", "identity;q=0", "", ";", "gzip; "})
	add("Accept-Language", []string{"en-US,en;q=0.9,de;q=0.8", "*;q=0", "en;q", "en;"})
	add("Cookie", []string{"a=1; n=2", "a=1; fiber_flash=\x91\x80", "fiber_flash=\xdc\xff\xff", "fiber_flash=\xdd!!!!", "a", "=", "a=1;;b=2", "a=\"q\"", strings.Repeat("c=1; ", 100)})
	add("X-Forwarded-For", []string{"1.2.3.4, ::1", "junk", ",,,", "1.2.3.4,", " 9.9.9.9 , 8.8.8.8", strings.Repeat("1.1.1.1, ", 60)})
	add("X-Forwarded-Host", []string{"evil.test", "a,b", ""})
	add("X-Forwarded-Proto", []string{"https", "ftp,https"})
	if rapid.IntRange(0, 3).Draw(t, "hasINM") == 0 {
		// entity-tag lists from a grammar incl. empty and blank elements; no element matches the handler's validator most of the time
		n := rapid.IntRange(1, 5).Draw(t, "inmN")
		var sb strings.Builder
		for i := 0; i < n; i++ {
			if i > 0 {
				sb.WriteString(rapid.SampledFrom([]string{",", ", ", " ,", " , ", ",  "}).Draw(t, "inmSep"))
			}
			sb.WriteString(rapid.SampledFrom([]string{`"v0"`, `W/"v0"`, `"a"`, `"v1"`, `W/"v1"`, "", " ", "  ", "*", `"`, "W/", `"a b"`, "\t"}).Draw(t, "inmTag"))
		}
		r.Headers = append(r.Headers, [2]string{"If-None-Match", sb.String()})
	}
	add("If-Modified-Since", []string{"Mon, 02 Jan 2006 15:04:05 GMT", "junk"})
	add("X-Requested-With", []string{"XMLHttpRequest", "x"})
	add("Connection", []string{"close", "keep-alive", "upgrade"})
	add("Expect", []string{"100-continue", "nope"})
	unusual := r.Method == "FOO" || r.Method == "PURGE" || r.Method == "get" || r.Method == "PATCH"
	if r.Method == "POST" || r.Method == "PUT" || (unusual && rapid.Bool().Draw(t, "bodyunusual")) || rapid.IntRange(0, 9).Draw(t, "bodyany") == 0 {
		switch rapid.IntRange(0, 8).Draw(t, "bodykind") {
		case 0:
			r.Headers = append(r.Headers, [2]string{"Content-Type", "application/x-www-form-urlencoded"})
			r.Body = []byte(rapid.SampledFrom([]string{"a=1&b=2&b=3&n=7", "a=%zz&&=&b", "a[b][c]=1&a[b=2", strings.Repeat("k=v&", 50)}).Draw(t, "form"))
		case 1:
			r.Headers = append(r.Headers, [2]string{"Content-Type", "multipart/form-data; boundary=b"})
			r.Body = []byte(rapid.SampledFrom([]string{"--b\r\nContent-Disposition: form-data; name=\"a\"\r\n\r\n1\r\n--b--\r\n",
				"--b\r\nContent-Disposition: form-data; name=\"f\"; filename=\"x.txt\"\r\nContent-Type: text/plain\r\n\r\nhello\r\n--b--\r\n",
				"--b\r\nContent-Disposition: form-data; name=\"a\"\r\n\r\n1\r\n--b", "--b\r\n\r\n--b--\r\n", "--x--\r\n"}).Draw(t, "multipart"))
		case 2:
			r.Headers = append(r.Headers, [2]string{"Content-Type", "application/json"})
			r.Body = []byte(rapid.SampledFrom([]string{`{"a":"1","n":7}`, `{"a":`, `[]`, `{"n":"x"}`, strings.Repeat("[", 2000)}).Draw(t, "json"))
		case 3:
			r.Headers = append(r.Headers, [2]string{"Content-Type", "application/xml"})
			r.Body = []byte(rapid.SampledFrom([]string{`<BindTarget><a>1</a><n>7</n></BindTarget>`, `<a>`, ``}).Draw(t, "xml"))
		case 4:
			r.Headers = append(r.Headers, [2]string{"Content-Type", "application/x-www-form-urlencoded"}, [2]string{"Content-Encoding", rapid.SampledFrom([]string{"gzip", "gzip, gzip", "deflate", "br", "zstd", "gzip, deflate, br", "unknown", strings.Repeat("gzip, ", 30) + "gzip"}).Draw(t, "ce")})
			r.Body = gz([]byte("a=1&b=2"))
			if rapid.Bool().Draw(t, "corruptgz") {
				r.Body = r.Body[:len(r.Body)/2]
			} else if rapid.IntRange(0, 15).Draw(t, "bomb") == 0 {
				r.Body = gzBomb // 32 MiB of zeros in ~32 KiB: decoding must not cost memory out of proportion to what was sent
			} else if rapid.IntRange(0, 7).Draw(t, "zstdwin") == 0 {
				// a ten byte zstd frame that announces a 128 MiB window and carries one raw one-byte block
				r.Headers[len(r.Headers)-1][1] = "zstd"
				r.Body = []byte{0x28, 0xB5, 0x2F, 0xFD, 0x00, 0x88, 0x09, 0x00, 0x00, 0x41}
			}
		case 5:
			r.Headers = append(r.Headers, [2]string{"Content-Type", "application/cbor"})
			r.Body = []byte{0xa1, 0x61, 'a', 0x61, '1'}
		case 6:
			r.Body = bytes.Repeat([]byte("x"), rapid.SampledFrom([]int{0, 1, 63, 64, 65, 300}).Draw(t, "blen"))
		default:
			r.Headers = append(r.Headers, [2]string{"Content-Type", rapid.SampledFrom([]string{"text/plain", "application/vnd.api+json", ";", "multipart/form-data", "application/json; charset=\xff"}).Draw(t, "ctype")})
			r.Body = []byte("hello")
		}
		r.Chunked = rapid.IntRange(0, 5).Draw(t, "chunked") == 0
	}
	r.Mut = rapid.SampledFrom([]string{"", "", "", "", "", "", "", "", "", "", "", "", "", "", "", "", "", "", "", "", "", "", "", "", "", "", "", "dup-cl", "huge-cl", "neg-cl", "nul-in-header", "oversize-header", "header-no-colon", "bare-lf", "bad-chunk", "trunc-body"}).Draw(t, "mut")
	r.NoHost = rapid.IntRange(0, 12).Draw(t, "nohost") == 0
	return r
}

func genCase(t *rapid.T) Case {
	c := Case{Config: rapid.IntRange(0, nConfigs-1).Draw(t, "config"), Helpers: genHelpers(t)}
	n := rapid.IntRange(1, 4).Draw(t, "nreq")
	for i := 0; i < n; i++ {
		c.Reqs = append(c.Reqs, genReq(t))
	}
	// (drawn last: the handler finishes with Ctx.End() - response flushed by fiber itself, connection closed)
	if rapid.IntRange(0, 7).Draw(t, "end") == 0 {
		c.Helpers = append(c.Helpers, Helper{"end", nil})
	}
	return c
}

var propWire = vk.Register(&vk.Prop[Case]{Property: property, Name: "wire", Gen: genCase, Check: check, Classify: classify, Quick: 8000, Thorough: 60000})

func TestWire(t *testing.T) { propWire.Run(t) }
func FuzzWire(f *testing.F) { propWire.Fuzz(f) }

// classify: open finding C07-b (= C12-a): the flash cookie written by Redirect().With() is raw msgpack; a message whose
// key, value or level contains CR, LF or another control byte puts that byte on the wire inside Set-Cookie.
func classify(c Case, fail string) string {
	if ended(c) && len(c.Reqs) >= 2 {
		return classifyEnd(c)
	}
	return classifyFlash(c, fail)
}

func classifyFlash(c Case, fail string) string {
	if !(strings.Contains(fail, "not a well-formed HTTP/1.1 response stream") || strings.Contains(fail, "net/http client refuses") || strings.Contains(fail, "unexpected response field") || strings.Contains(fail, "body is")) {
		return ""
	}
	hasFlash := false
	for _, h := range c.Helpers {
		hasFlash = hasFlash || h.Name == "flash"
	}
	if !hasFlash {
		return ""
	}
	// the failure must disappear when every flash message is replaced by a short printable one whose raw msgpack encoding
	// happens to contain no control byte (key "k", value "v", level '!')
	c2 := c
	c2.Helpers = nil
	for _, h2 := range c.Helpers {
		if h2.Name == "flash" {
			h2 = Helper{"flash", []string{"k", "v", "!"}}
		}
		c2.Helpers = append(c2.Helpers, h2)
	}
	if check(c2).Fail != "" {
		return ""
	}
	// ... and it must not be owed to a line break in the flash data: Cookie() replaces CR and LF, so what is left of this
	// finding are the other control bytes. A failure that disappears when CR and LF in the flash arguments are spelled
	// with letters is a header split, not this finding.
	c3 := c
	c3.Helpers = nil
	for _, h3 := range c.Helpers {
		if h3.Name == "flash" {
			args := make([]string, len(h3.Args))
			for i, a := range h3.Args {
				args[i] = strings.NewReplacer("\r", "r", "\n", "n").Replace(a)
			}
			h3 = Helper{"flash", args}
		}
		c3.Helpers = append(c3.Helpers, h3)
	}
	if check(c3).Fail == "" {
		return ""
	}
	return "C07-b"
}

// classifyEnd: open finding C07-p. Ctx.End() writes the current response straight to the connection and closes it, but the
// server keeps the responses to earlier pipelined requests in its own write buffer until the input runs dry: those are
// lost, and the client takes End()'s response for the answer to its first request. Signature: the handler calls End(),
// the connection carries several requests, the same case passes without End(), and every one of its requests passes
// on a connection of its own with End() (so whatever End() itself writes is well-formed, HEAD included). Where one of
// those variants fails, it must itself be the other open finding (C07-b) for the case to count as known.
func classifyEnd(c Case) string {
	var rest []Helper
	for _, h := range c.Helpers {
		if h.Name != "end" {
			rest = append(rest, h)
		}
	}
	id := "C07-p"
	variants := []Case{{Config: c.Config, Reqs: c.Reqs, Helpers: rest}}
	for _, r := range c.Reqs {
		variants = append(variants, Case{Config: c.Config, Reqs: []Req{r}, Helpers: c.Helpers})
	}
	for _, v := range variants {
		if f := check(v).Fail; f != "" {
			if classifyFlash(v, f) == "" {
				return ""
			}
			id = "C07-b"
		}
	}
	return id
}

func ended(c Case) bool {
	for _, h := range c.Helpers {
		if h.Name == "end" {
			return true
		}
	}
	return false
}

// ---- raw connection bytes -------------------------------------------------------------------------------

type RawCase struct {
	Config int
	Bytes  []byte
}

func checkRaw(c RawCase) vk.Verdict {
	w := newWorld(c.Config, []Helper{{"set", []string{"v"}}, {"cookie", []string{"n", "v", "/", ""}}})
	if _, err := vk.Wire(w.app, []byte("GET /o/w/x HTTP/1.1\r\nHost: h\r\n\r\n")); err != nil {
		return vk.Failf("warm-up: %v", err)
	}
	w.ran.Store(0)
	allocMu.Lock()
	var m0, m1 runtime.MemStats
	runtime.ReadMemStats(&m0)
	out, err, hung := vk.WireTimeout(w.app, c.Bytes, 20*time.Second)
	runtime.ReadMemStats(&m1)
	allocMu.Unlock()
	ctx := fmt.Sprintf("config %d, connection bytes %q", c.Config%nConfigs, clip(c.Bytes, 600))
	if hung {
		return vk.Failf("%s: hang (20 s)", ctx)
	}
	if err != nil {
		return vk.Failf("%s: %v", ctx, err)
	}
	if d := m1.TotalAlloc - m0.TotalAlloc; d > 8<<20+256*uint64(len(c.Bytes)) {
		return vk.Failf("%s: allocated %d bytes for %d input bytes", ctx, d, len(c.Bytes))
	}
	// HEAD requests cannot be attributed reliably in raw input; accept either framing interpretation
	_, e1 := vk.ParseResponses(out, nil)
	_, e2 := vk.ParseResponses(out, func(int) bool { return true })
	if e1 != nil && e2 != nil && !bytes.Contains(c.Bytes, []byte("HEAD")) {
		return vk.Failf("%s: output is not a well-formed response stream: %v\noutput %q", ctx, e1, clip(out, 800))
	}
	return vk.Verdict{NonTrivial: w.ran.Load() > 0, Classes: []string{fmt.Sprintf("config:%d", c.Config%nConfigs), fmt.Sprintf("handler-ran:%v", w.ran.Load() > 0)}}
}

var rawSeeds = []string{
	"GET /o/x/y?a=1&b=2 HTTP/1.1\r\nHost: a.b.c\r\nRange: bytes=0-5,10-\r\nAccept: text/*;q=0.5, */*\r\nCookie: a=1; fiber_flash=\x91\x80\r\nX-Forwarded-For: 1.2.3.4, ::1\r\nIf-None-Match: W/\"a\", \"b\"\r\n\r\n",
	"POST /o/x/ HTTP/1.1\r\nHost: h\r\nContent-Type: application/x-www-form-urlencoded\r\nContent-Length: 7\r\n\r\na=1&b=2",
	"POST /o/x/ HTTP/1.1\r\nHost: h\r\nContent-Type: multipart/form-data; boundary=b\r\nContent-Length: 60\r\n\r\n--b\r\nContent-Disposition: form-data; name=\"a\"\r\n\r\n1\r\n--b--\r\n",
	"FOO /o/x/ HTTP/1.1\r\nHost: h\r\nContent-Encoding: gzip, deflate, br\r\nContent-Length: 3\r\n\r\nabc",
	"0 0 HTTP/000\n\n",
	"GET /o/x/y HTTP/1.1\r\nHost: h\r\nCookie: fiber_flash=\xdc\xff\xff\r\n\r\n",
}

func genRaw(t *rapid.T) RawCase {
	c := RawCase{Config: rapid.IntRange(0, nConfigs-1).Draw(t, "config")}
	base := []byte(rapid.SampledFrom(rawSeeds).Draw(t, "seed"))
	n := rapid.IntRange(0, 6).Draw(t, "nmut")
	for i := 0; i < n && len(base) > 0; i++ {
		pos := rapid.IntRange(0, len(base)-1).Draw(t, "pos")
		switch rapid.IntRange(0, 4).Draw(t, "mk") {
		case 0:
			base[pos] = rapid.Byte().Draw(t, "b")
		case 1:
			base = append(base[:pos], base[pos+1:]...)
		case 2:
			ins := rapid.SampledFrom([]string{"\r\n", "\x00", ":", " ", ",", ";", "=", "%", "\xff", "0", "-", "999999999999", "\"", "HEAD "}).Draw(t, "ins")
			base = append(base[:pos], append([]byte(ins), base[pos:]...)...)
		case 3:
			base = base[:pos]
		default:
			base = append(base, base[pos:]...)
		}
	}
	c.Bytes = base
	return c
}

var propRaw = vk.Register(&vk.Prop[RawCase]{Property: property, Name: "rawconn", Gen: genRaw, Check: checkRaw, Quick: 6000, Thorough: 40000})

func TestRawConn(t *testing.T) { propRaw.Run(t) }
func FuzzRawConn(f *testing.F) { propRaw.Fuzz(f) }

// ---- several connections at once ------------------------------------------------------------------------------
//
// A server has many connections; state shared between them (pools handed out twice, caches without locks) only
// breaks when two of them are served at the same time. Each connection of a case is served on its own goroutine by the
// same app; every output must still be a well-formed response stream, and the process must survive (a fatal runtime
// error kills the worker, which the driver attributes to this case through the crash journal).

type ParCase struct {
	Config  int
	Helpers []Helper
	Conns   [][]Req
	Rounds  int
}

func checkPar(c ParCase) vk.Verdict {
	if len(c.Conns) == 0 {
		return vk.Verdict{Skip: true}
	}
	w := newWorld(c.Config, c.Helpers)
	raws := make([][]byte, len(c.Conns))
	for i, conn := range c.Conns {
		for _, r := range conn {
			raws[i] = append(raws[i], r.render()...)
		}
	}
	type res struct {
		out  []byte
		err  error
		hung bool
	}
	for round := 0; round < max(c.Rounds, 1); round++ {
		outs := make([]res, len(raws))
		var wg sync.WaitGroup
		start := make(chan struct{})
		for i := range raws {
			wg.Add(1)
			go func(i int) {
				defer wg.Done()
				<-start
				o, e, h := vk.WireTimeout(w.app, raws[i], 20*time.Second)
				outs[i] = res{o, e, h}
			}(i)
		}
		close(start)
		wg.Wait()
		for i, o := range outs {
			ctx := fmt.Sprintf("config %d, helpers %+v, %d connections served at once, connection %d bytes %q", c.Config%nConfigs, c.Helpers, len(raws), i, clip(raws[i], 500))
			if o.hung {
				return vk.Failf("%s: the server did not finish the connection within 20 s", ctx)
			}
			if o.err != nil {
				return vk.Failf("%s: %v", ctx, o.err)
			}
			ok := false
			var perr error
			for mask := 0; mask < 1<<min(len(c.Conns[i])+1, 7) && !ok; mask++ {
				_, perr = vk.ParseResponses(o.out, func(k int) bool { return k < 7 && mask>>k&1 == 1 })
				ok = perr == nil
			}
			if !ok {
				v := vk.Failf("%s: the output is not a well-formed HTTP/1.1 response stream: %v\noutput: %q", ctx, perr, clip(o.out, 900))
				// the raw flash cookie (open finding C07-b) is judged by the sequential property
				for _, h := range c.Helpers {
					if h.Name == "flash" {
						return vk.Verdict{Excluded: "C07-b", Classes: []string{"parallel:flash-helper"}}
					}
				}
				return v
			}
		}
	}
	return vk.Verdict{NonTrivial: len(c.Conns) >= 2, Classes: []string{fmt.Sprintf("parallel-conns:%d", len(c.Conns))}}
}

var propPar = vk.Register(&vk.Prop[ParCase]{Property: property, Name: "parallel", Check: checkPar, Quick: 800, Thorough: 6000,
	Gen: func(t *rapid.T) ParCase {
		c := ParCase{Config: rapid.IntRange(0, nConfigs-1).Draw(t, "config"), Helpers: genHelpers(t), Rounds: rapid.IntRange(1, 4).Draw(t, "rounds")}
		n := rapid.IntRange(2, 8).Draw(t, "nconns")
		for i := 0; i < n; i++ {
			var conn []Req
			k := rapid.IntRange(1, 3).Draw(t, "nreq")
			for j := 0; j < k; j++ {
				conn = append(conn, genReq(t))
			}
			c.Conns = append(c.Conns, conn)
		}
		if rapid.Bool().Draw(t, "negotiate") {
			// every request negotiates with parameterised ranges (pooled per-range state is then in use on all connections)
			for i := range c.Conns {
				for j := range c.Conns[i] {
					r := &c.Conns[i][j]
					var hs [][2]string
					for _, h := range r.Headers {
						if !strings.EqualFold(h[0], "Accept") {
							hs = append(hs, h)
						}
					}
					r.Headers = append(hs, [2]string{"Accept", rapid.SampledFrom([]string{"text/plain;format=flowed, */*", "text/html;level=1, text/html;level=2;q=0.5, */*;q=0.1",
						"application/json;v=2, text/*", "text/html;a=b;c=d, text/plain;format=fixed;q=0.9, */*;q=0.8", "image/png;x=1, application/json;y=2;q=0.7, text/plain;z=3;q=0.6, */*;q=0.1"}).Draw(t, "acc")})
					if r.Method != "GET" && r.Method != "POST" {
						r.Method = "GET"
					}
					r.Target, r.Proto, r.Mut = "/o/x/y", "", ""
				}
			}
		}
		// (drawn last) the handler finishes with Ctx.End(): each connection is flushed and closed by fiber itself while the
		// other connections are being served
		if rapid.IntRange(0, 7).Draw(t, "end") == 0 {
			c.Helpers = append(c.Helpers, Helper{"end", nil})
		}
		return c
	}})

func TestParallel(t *testing.T) { propPar.Run(t) }
