package c01

import (
	"regexp"
	"unicode/utf8"

	"fmt"
	"github.com/gofiber/fiber/v3/middleware/rewrite"
	"net/url"
	"strconv"
	"strings"
	"sync"
	"testing"

	"github.com/gofiber/fiber/v3"
	"pgregory.net/rapid"

	"verifharness/vk"
)

const property = "C01"

func TestMain(m *testing.M) { vk.Main(m, property) }

func TestAAACorpus(t *testing.T)    { vk.TestCorpus(t, property) }
func TestAAAWitnesses(t *testing.T) { vk.TestWitnesses(t, property) }
func TestReplay(t *testing.T)       { vk.TestReplay(t) }

// H is one handler: it records its id, then acts.
type H struct {
	ID  string
	Act string // next | stop | err | path | method
	Arg string // err: status code; path: new path; method: new method
}

// Reg is one registration call.
type Reg struct {
	Kind    string   // add | all | use | usemulti | group | route
	Methods []string `json:",omitempty"` // add
	Path    string   // add/all/use: path or prefix; group: prefix; route: path
	Paths   []string `json:",omitempty"` // usemulti
	H       []H      `json:",omitempty"` // handlers (group: optional group middleware)
	Items   []Reg    `json:",omitempty"` // group: nested registrations; route: chained method registrations (Kind add)
	Plain   bool     `json:",omitempty"` // mount: the sub-app was created with the default CaseSensitive/StrictRouting/UnescapePath; the app that dispatches decides
}

type Case struct {
	CS, Strict, Unesc bool
	Custom            bool     // custom ctx through NewCtxFunc (documented pattern)
	ReqMethods        []string `json:",omitempty"` // custom Config.RequestMethods (nil = default)
	Regs              []Reg
	Late              int `json:",omitempty"` // the last Late top-level registrations are made after the app served its first request, followed by RebuildTree
	Method, Path      string
}

func (c Case) cfg() fiber.Config {
	return fiber.Config{CaseSensitive: c.CS, StrictRouting: c.Strict, UnescapePath: c.Unesc, RequestMethods: c.ReqMethods}
}

type customCtx struct {
	fiber.DefaultCtx
}

func newApp(c Case) *fiber.App {
	app := fiber.New(c.cfg())
	if c.Custom {
		app.NewCtxFunc(func(app *fiber.App) fiber.CustomCtx {
			return &customCtx{DefaultCtx: *fiber.NewDefaultCtx(app)}
		})
	}
	return app
}

type registrar = fiber.Router

func mkHandlers(hs []H, trace *[]string) []fiber.Handler {
	var out []fiber.Handler
	for _, h := range hs {
		h := h
		out = append(out, func(c fiber.Ctx) error {
			*trace = append(*trace, h.ID)
			switch h.Act {
			case "next":
				return c.Next()
			case "err":
				code, _ := strconv.Atoi(h.Arg)
				return fiber.NewError(code, "E"+h.ID)
			case "path":
				c.Path(h.Arg)
				return c.Next()
			case "method":
				c.Method(h.Arg)
				return c.Next()
			case "rewrite":
				// the bundled rewrite middleware with one rule: the request's own path (as it was sent) -> Arg
				if !utf8.ValidString(rewriteFrom) {
					return c.Next() // (a rule is a regular expression: it cannot spell a path that is not UTF-8)
				}
				return rewrite.New(rewrite.Config{Rules: map[string]string{"^" + regexp.QuoteMeta(rewriteFrom): h.Arg}})(c)
			}
			return c.SendString(h.ID)
		})
	}
	return out
}

func install(r registrar, regs []Reg, trace *[]string, cfg fiber.Config) {
	for _, g := range regs {
		hs := mkHandlers(g.H, trace)
		switch g.Kind {
		case "add":
			if len(g.Methods) == 1 {
				// use the verb shortcut where one exists (same code path as Add, but exercise the API surface)
				switch g.Methods[0] {
				case "GET":
					r.Get(g.Path, hs[0], hs[1:]...)
					continue
				case "POST":
					r.Post(g.Path, hs[0], hs[1:]...)
					continue
				case "PUT":
					r.Put(g.Path, hs[0], hs[1:]...)
					continue
				case "DELETE":
					r.Delete(g.Path, hs[0], hs[1:]...)
					continue
				case "HEAD":
					r.Head(g.Path, hs[0], hs[1:]...)
					continue
				}
			}
			r.Add(g.Methods, g.Path, hs[0], hs[1:]...)
		case "all":
			r.All(g.Path, hs[0], hs[1:]...)
		case "use":
			args := []any{}
			if g.Path != "\x00none" {
				args = append(args, g.Path)
			}
			for _, h := range hs {
				args = append(args, h)
			}
			r.Use(args...)
		case "usemulti":
			args := []any{g.Paths}
			for _, h := range hs {
				args = append(args, h)
			}
			r.Use(args...)
		case "group":
			grp := r.Group(g.Path, hs...)
			install(grp, g.Items, trace, cfg)
		case "mount":
			subCfg := cfg
			if g.Plain {
				subCfg = fiber.Config{RequestMethods: cfg.RequestMethods}
			}
			sub := fiber.New(subCfg)
			install(sub, g.Items, trace, cfg)
			r.Use(g.Path, sub)
		case "route":
			rt := r.Route(g.Path)
			for _, it := range g.Items {
				ihs := mkHandlers(it.H, trace)
				rt = rt.Add(it.Methods, ihs[0], ihs[1:]...)
			}
		}
	}
}

// ---- reference ------------------------------------------------------------------------------------------

type flat struct {
	use     bool
	methods []string
	path    string
	hs      []H
}

func groupPath(prefix, path string) string {
	if len(path) == 0 {
		return prefix
	}
	if path[0] != '/' {
		path = "/" + path
	}
	return strings.TrimRight(prefix, "/") + path
}

func flatten(prefix string, inGroup bool, regs []Reg, all []string, out *[]flat) {
	j := func(p string) string {
		if !inGroup {
			return p
		}
		return groupPath(prefix, p)
	}
	for _, g := range regs {
		switch g.Kind {
		case "add":
			*out = append(*out, flat{methods: g.Methods, path: j(g.Path), hs: g.H})
		case "all":
			*out = append(*out, flat{methods: all, path: j(g.Path), hs: g.H})
		case "use":
			p := g.Path
			if p == "\x00none" {
				p = ""
			}
			*out = append(*out, flat{use: true, path: j(p), hs: g.H})
		case "usemulti":
			for _, p := range g.Paths {
				*out = append(*out, flat{use: true, path: j(p), hs: g.H})
			}
		case "group":
			gp := j(g.Path)
			if len(g.H) > 0 {
				*out = append(*out, flat{use: true, path: gp, hs: g.H})
			}
			flatten(gp, true, g.Items, all, out)
		case "mount":
			mp := strings.TrimRight(j(g.Path), "/")
			if mp == "" {
				mp = "/"
			}
			var sub []flat
			flatten("", false, g.Items, all, &sub)
			for _, f := range sub {
				p := f.path
				if p == "" {
					p = "/"
				}
				f.path = groupPath(mp, p)
				*out = append(*out, f)
			}
		case "route":
			for _, it := range g.Items {
				*out = append(*out, flat{methods: it.Methods, path: j(g.Path), hs: it.H})
			}
		}
	}
}

func pctDecode(s string) string {
	if !strings.Contains(s, "%") {
		return s
	}
	d, err := url.PathUnescape(s)
	if err != nil {
		return s
	}
	return d
}

var (
	useMemoMu sync.Mutex
	useMemo   = map[string]bool{}
)

// useMatches: does a Use registration with this prefix, alone in an app, run for the path? (No exported matcher takes
// the prefix rule; the index bucket of a Use route is irrelevant for a one-route app only in the sense that C03/C01-d
// style index defects would show as a disagreement between both views and are then examined.)
func useMatches(c Case, prefix, path string) bool {
	if prefix == "" || prefix == "/" {
		return true // documented: a middleware without prefix (or on "/") matches any request - no second opinion needed
	}
	key := fmt.Sprintf("%v|%v|%v|%s|%s", c.CS, c.Strict, c.Unesc, prefix, path)
	useMemoMu.Lock()
	v, ok := useMemo[key]
	useMemoMu.Unlock()
	if ok {
		return v
	}
	app := fiber.New(fiber.Config{CaseSensitive: c.CS, StrictRouting: c.Strict, UnescapePath: c.Unesc})
	ran := false
	app.Use(prefix, func(fiber.Ctx) error { ran = true; return nil })
	vk.Do(app, "GET", path)
	useMemoMu.Lock()
	if len(useMemo) > 200000 {
		useMemo = map[string]bool{}
	}
	useMemo[key] = ran
	useMemoMu.Unlock()
	return ran
}

func has(a []string, s string) bool {
	for _, x := range a {
		if x == s {
			return true
		}
	}
	return false
}

func (f flat) matches(c Case, method, path string) bool {
	if f.use {
		return useMatches(c, f.path, path)
	}
	if !has(f.methods, method) {
		return false
	}
	p := path
	if c.Unesc {
		p = pctDecode(p)
	}
	return fiber.RoutePatternMatch(p, f.path, fiber.Config{CaseSensitive: c.CS, StrictRouting: c.Strict})
}

type expect struct {
	trace      []string
	status     int
	allow      string
	nMatch     int
	nextTaken  bool
	overridden string
}

func allMethods(c Case) []string {
	if c.ReqMethods != nil {
		return c.ReqMethods
	}
	return fiber.DefaultMethods
}

func reference(c Case) expect {
	var fl []flat
	flatten("", false, c.Regs, allMethods(c), &fl)
	outs := simulate(c, fl, 0, c.Method, c.Path, false, expect{}, false, 0)
	return outs[0]
}

// simulate is the reference dispatcher: walk the registrations from index `from` in registration order. With
// anyCursor=false it is deterministic (the statement's semantics). With anyCursor=true it enumerates, at each *method*
// override, every possible continuation index - the behaviour class of open finding C01-F3 - and returns all outcomes.
// pruneTo, when set (classification only), abandons every branch whose trace is not a prefix of it.
var pruneTo []string

func simulate(c Case, fl []flat, from int, method, path string, endpoint bool, e expect, anyCursor bool, depth int) []expect {
	e.trace = append([]string(nil), e.trace...)
	for i := from; i < len(fl); i++ {
		f := fl[i]
		if !f.matches(c, method, path) {
			continue
		}
		e.nMatch++
		if !f.use {
			endpoint = true
		}
		for _, h := range f.hs {
			e.trace = append(e.trace, h.ID)
			if pruneTo != nil && (len(e.trace) > len(pruneTo) || pruneTo[len(e.trace)-1] != h.ID) {
				return nil
			}
			switch h.Act {
			case "stop":
				e.status = 200
				return []expect{e}
			case "err":
				e.status, _ = strconv.Atoi(h.Arg)
				return []expect{e}
			case "path":
				path = h.Arg
				e.overridden = "path"
			case "rewrite":
				// applies if the path the handler sees is (still) the request's own; then it is a path override like any other
				seen := path
				if c.Unesc {
					seen = pctDecode(seen)
				}
				if seen == c.Path && utf8.ValidString(c.Path) {
					path = h.Arg
					e.overridden = "path"
				}
			case "method":
				e.overridden = "method"
				if anyCursor && h.Arg != method && (depth < 3 || pruneTo != nil && depth < 12) {
					var outs []expect
					for j := 0; j <= len(fl); j++ {
						outs = append(outs, simulate(c, fl, j, h.Arg, path, endpoint, e, true, depth+1)...)
						if len(outs) > 5000 {
							break
						}
					}
					return outs
				}
				method = h.Arg
			}
			e.nextTaken = true
		}
	}
	e.status = 404
	if !endpoint {
		var ms []string
		for _, m := range allMethods(c) {
			if m == method {
				continue
			}
			for _, f := range fl {
				if !f.use && f.matches(c, m, path) {
					ms = append(ms, m)
					break
				}
			}
		}
		if len(ms) > 0 {
			e.status = 405
			e.allow = strings.Join(ms, ", ")
		}
	}
	return []expect{e}
}

type observed struct {
	trace  []string
	status int
	allow  string
}

// rewriteFrom is the request path of the case being run (the rule of the "rewrite" act is built from it)
var rewriteFrom string

func run(c Case) observed {
	rewriteFrom = c.Path
	var trace []string
	app := newApp(c)
	if c.Late > 0 && c.Late <= len(c.Regs) {
		// the table grows while the app is in service: the first registrations, a start (the lookup tree is built, one
		// request served), the remaining registrations and the documented RebuildTree
		install(app, c.Regs[:len(c.Regs)-c.Late], &trace, c.cfg())
		vk.Do(app, "GET", "/vk-warm-up")
		trace = trace[:0]
		install(app, c.Regs[len(c.Regs)-c.Late:], &trace, c.cfg())
		app.RebuildTree()
	} else {
		install(app, c.Regs, &trace, c.cfg())
	}
	resp := vk.Do(app, c.Method, c.Path)
	return observed{trace, resp.Response.StatusCode(), string(resp.Response.Header.Peek("Allow"))}
}

// classify recognises open finding C01-F3: the case executes a method override and what fiber did is exactly what the
// reference dispatcher does when, at the method override, the scan continues at some other position of the
// registration list (instead of right behind the overriding route). Any other deviation is reported.
func classify(c Case, fail string) string {
	var fl []flat
	flatten("", false, c.Regs, allMethods(c), &fl)
	want := simulate(c, fl, 0, c.Method, c.Path, false, expect{}, false, 0)[0]
	if want.overridden == "" {
		return ""
	}
	hasMethodOverride := false
	for _, f := range fl {
		for _, h := range f.hs {
			if h.Act == "method" {
				hasMethodOverride = true
			}
		}
	}
	if !hasMethodOverride {
		return ""
	}
	got := run(c)
	pruneTo = got.trace
	if pruneTo == nil {
		pruneTo = []string{}
	}
	defer func() { pruneTo = nil }()
	for _, o := range simulate(c, fl, 0, c.Method, c.Path, false, expect{}, true, 0) {
		if strings.Join(o.trace, ",") == strings.Join(got.trace, ",") && o.status == got.status && o.allow == got.allow {
			return "C01-c"
		}
	}
	return ""
}

func check(c Case) vk.Verdict {
	if strings.ContainsAny(c.Path, "?#") {
		return vk.Verdict{Skip: true}
	}
	got := run(c)
	trace, status, allow := got.trace, got.status, got.allow
	want := reference(c)
	v := vk.Verdict{}
	if strings.Join(trace, ",") != strings.Join(want.trace, ",") {
		v.Fail = fmt.Sprintf("handlers run: %v, want (registration order, individually matching, after Next): %v", trace, want.trace)
	} else if status != want.status {
		v.Fail = fmt.Sprintf("status %d, want %d (trace %v)", status, want.status, trace)
	} else if allow != want.allow {
		v.Fail = fmt.Sprintf("Allow %q, want %q (status %d)", allow, want.allow, status)
	}
	if v.Fail != "" {
		v.Fail = fmt.Sprintf("%s %s on cs=%v strict=%v unesc=%v custom=%v: %s", c.Method, c.Path, c.CS, c.Strict, c.Unesc, c.Custom, v.Fail)
		return v
	}
	v.NonTrivial = (want.nMatch >= 2 && want.nextTaken) || want.status == 405 || want.overridden != ""
	if want.status == 405 {
		v.Classes = append(v.Classes, "405")
	}
	if want.overridden != "" {
		v.Classes = append(v.Classes, "override-"+want.overridden)
	}
	if len(want.trace) >= 3 {
		v.Classes = append(v.Classes, "trace>=3")
	}
	if c.Custom {
		v.Classes = append(v.Classes, "customctx")
	}
	if c.ReqMethods != nil {
		v.Classes = append(v.Classes, "custom-methods")
	}
	v.Classes = append(v.Classes, bucketClass(c.Path), fmt.Sprintf("status:%d", want.status))
	return v
}

func bucketClass(p string) string {
	switch {
	case len(p) < 3:
		return "req:short(<3)"
	case len(p) == 3:
		return "req:3bytes"
	default:
		return "req:indexed(>3)"
	}
}

// ---- generator ------------------------------------------------------------------------------------------

var routePaths = []string{"/", "/a", "/ab", "/abc", "/abcd", "/abc/", "/ABC", "/abc/x", "/abd", "/a/b", "/abc/x/y", "/a/",
	"/:p", "/ab/:p", "/abc/:p", "/abc/:p?", "/a/:p?", "/a/*", "/*", "/abc/*", "/+", "/abc/+", "/ab-:p", "/a%41", "/ab/:p/x", "/:p/x",
	"/abc\\:x", "/ab/", "/Ab", "*", "/ab/*", "/a-b", "/a.b", "/abc/:p/:q?",
	// capitals outside ASCII (case-insensitive routing folds ASCII letters; these bytes stay as they are on both sides)
	"/\u00c4rzte", "/\u00c4rzte/\u00dcbersicht"}

var reqPaths = []string{"/", "/a/", "/a", "/ab", "/abc", "/abcd", "/abc/", "/ABC", "/Abc/X", "/abc/x", "/abd", "/zzz", "/ab/q", "/abc/x/y",
	"/ab-q", "/a/b", "/a%41", "/aA", "/abc//", "/ab/", "/ab/q/x", "/q/x", "/abc:x", "/Ab", "/a-b", "/a.b", "/abc/q/r", "/a/b/c", "/AB/Q", "/ab/%71",
	"/\u00c4rzte", "/\u00c4rzte/\u00dcbersicht", "/\u00e4rzte", "/\u00c4RZTE", "/%C3%84rzte"}

var defMethods = []string{"GET", "POST", "PUT", "HEAD", "DELETE"}
var customMethods = []string{"GET", "HEAD", "POST", "PURGE"}

var groupPrefixes = []string{"/g", "/ab", "/abc", "/a", "/:t", "/abc/"}
var groupItemPaths = []string{"", "/", "/x", "/:p", "/*", "/ab", "/x/"}

type gen struct {
	mounted bool
	t       *rapid.T
	hid     int
	methods []string
	reqs    []string
}

func (g *gen) handlers(maxN int, allowOverride bool) []H {
	n := rapid.IntRange(1, maxN).Draw(g.t, "nh")
	var hs []H
	for j := 0; j < n; j++ {
		g.hid++
		h := H{ID: fmt.Sprintf("h%d", g.hid), Act: "next"}
		if j == n-1 {
			switch rapid.SampledFrom([]string{"next", "next", "next", "stop", "err", "path", "method"}).Draw(g.t, "act") {
			case "stop":
				h.Act = "stop"
			case "err":
				h.Act, h.Arg = "err", rapid.SampledFrom([]string{"418", "409", "500"}).Draw(g.t, "code")
			case "path":
				if allowOverride {
					h.Act, h.Arg = "path", rapid.SampledFrom(g.reqs).Draw(g.t, "newpath")
					if rapid.IntRange(0, 2).Draw(g.t, "viarewrite") == 0 {
						h.Act = "rewrite" // the same override made by the bundled rewrite middleware
					}
				}
			case "method":
				if allowOverride {
					h.Act, h.Arg = "method", rapid.SampledFrom(g.methods).Draw(g.t, "newmethod")
				}
			}
		}
		hs = append(hs, h)
	}
	return hs
}

func (g *gen) reg(depth int, prev []Reg, pathPool []string) []Reg {
	t := g.t
	kind := rapid.SampledFrom([]string{"add", "add", "add", "add", "all", "use", "use", "usemulti", "group", "route", "burst", "mount"}).Draw(t, "kind")
	pickPath := func() string {
		if len(prev) > 0 && rapid.IntRange(0, 3).Draw(t, "dup") == 0 {
			p := prev[rapid.IntRange(0, len(prev)-1).Draw(t, "dupOf")]
			if p.Kind != "usemulti" && p.Path != "\x00none" {
				return p.Path
			}
		}
		return rapid.SampledFrom(pathPool).Draw(t, "path")
	}
	switch kind {
	case "add":
		ms := rapid.SliceOfNDistinct(rapid.SampledFrom(g.methods), 1, 3, rapid.ID[string]).Draw(t, "methods")
		return []Reg{{Kind: "add", Methods: ms, Path: pickPath(), H: g.handlers(6, true)}}
	case "all":
		return []Reg{{Kind: "all", Path: pickPath(), H: g.handlers(3, true)}}
	case "use":
		p := pickPath()
		if rapid.IntRange(0, 3).Draw(t, "noprefix") == 0 {
			p = "\x00none"
		}
		return []Reg{{Kind: "use", Path: p, H: g.handlers(3, true)}}
	case "usemulti":
		ps := rapid.SliceOfN(rapid.SampledFrom(pathPool), 1, 3).Draw(t, "prefixes")
		return []Reg{{Kind: "usemulti", Paths: ps, H: g.handlers(2, false)}}
	case "group":
		if depth >= 2 {
			return []Reg{{Kind: "add", Methods: []string{g.methods[0]}, Path: pickPath(), H: g.handlers(3, true)}}
		}
		r := Reg{Kind: "group", Path: rapid.SampledFrom(groupPrefixes).Draw(t, "gprefix")}
		if rapid.Bool().Draw(t, "gmw") {
			r.H = g.handlers(2, false)
		}
		n := rapid.IntRange(1, 3).Draw(t, "gitems")
		for i := 0; i < n; i++ {
			r.Items = append(r.Items, g.reg(depth+1, r.Items, groupItemPaths)...)
		}
		return []Reg{r}
	case "mount":
		if depth >= 1 || g.mounted {
			return []Reg{{Kind: "add", Methods: []string{g.methods[0]}, Path: pickPath(), H: g.handlers(2, false)}}
		}
		g.mounted = true // one mount per table: two mounts on one prefix are finding C04-b territory
		r := Reg{Kind: "mount", Path: rapid.SampledFrom([]string{"/m", "/ab", "/abc", "/a", "/", "/"}).Draw(t, "mprefix"), Plain: rapid.Bool().Draw(t, "mplain")}
		n := rapid.IntRange(1, 4).Draw(t, "mitems")
		for i := 0; i < n; i++ {
			k := rapid.SampledFrom([]string{"add", "add", "use", "all"}).Draw(t, "mkind")
			p := rapid.SampledFrom([]string{"/", "/x", "/:p", "/*", "/ab", "/abc", "/abc/x", "/x/", "/Ab", "/AB/x/"}).Draw(t, "mpath")
			switch k {
			case "add":
				ms := rapid.SliceOfNDistinct(rapid.SampledFrom(g.methods), 1, 2, rapid.ID[string]).Draw(t, "mmethods")
				r.Items = append(r.Items, Reg{Kind: "add", Methods: ms, Path: p, H: g.handlers(3, true)})
			case "use":
				r.Items = append(r.Items, Reg{Kind: "use", Path: p, H: g.handlers(2, true)})
			default:
				r.Items = append(r.Items, Reg{Kind: "all", Path: p, H: g.handlers(2, true)})
			}
		}
		return []Reg{r}
	case "route":
		r := Reg{Kind: "route", Path: pickPath()}
		n := rapid.IntRange(1, 3).Draw(t, "chain")
		for i := 0; i < n; i++ {
			r.Items = append(r.Items, Reg{Kind: "add", Methods: []string{rapid.SampledFrom(g.methods).Draw(t, "cm")}, H: g.handlers(2, false)})
		}
		return []Reg{r}
	default: // burst: multi-method registration whose handler slice has spare capacity + one duplicate per method
		ms := rapid.SliceOfNDistinct(rapid.SampledFrom(g.methods), 2, 3, rapid.ID[string]).Draw(t, "bmethods")
		p := pickPath()
		hs := g.handlers(6, false)
		for i := range hs {
			hs[i].Act = "next"
		}
		out := []Reg{{Kind: "add", Methods: ms, Path: p, H: hs}}
		for _, m := range ms {
			if rapid.IntRange(0, 4).Draw(t, "bskip") == 0 {
				continue
			}
			out = append(out, Reg{Kind: "add", Methods: []string{m}, Path: p, H: g.handlers(2, false)})
		}
		return out
	}
}

func mutatePath(t *rapid.T, p string) string {
	switch rapid.IntRange(0, 9).Draw(t, "mut") {
	case 0:
		b := []byte(p)
		for i, c := range b {
			if c >= 'a' && c <= 'z' && rapid.Bool().Draw(t, "flip") {
				b[i] = c - 32
			}
		}
		return string(b)
	case 1:
		if strings.HasSuffix(p, "/") && len(p) > 1 {
			return p[:len(p)-1]
		}
		return p + "/"
	case 2:
		if len(p) > 1 {
			i := rapid.IntRange(1, len(p)-1).Draw(t, "pct")
			if p[i] != '/' && p[i] != '%' && (i < 1 || p[i-1] != '%') && (i < 2 || p[i-2] != '%') {
				return p[:i] + fmt.Sprintf("%%%02X", p[i]) + p[i+1:]
			}
		}
	case 3:
		n := rapid.IntRange(1, 3).Draw(t, "trunc")
		if len(p) > n {
			return p[:n]
		}
	case 4:
		// nothing but slashes, a doubled leading or trailing slash
		return rapid.SampledFrom([]string{"//", "///", "/" + p, p + "/", p + "//"}).Draw(t, "slashes")
	}
	return p
}

// sanitize removes override scripts where the statement gives no unambiguous answer: a handler with an override must
// not be followed by a registration fiber merges into the same route (same path, same kind), because handlers of one
// route continue without re-matching.
func sanitize(c *Case) (dropped int) {
	var fl []flat
	flatten("", false, c.Regs, allMethods(*c), &fl)
	type key struct {
		use  bool
		path string
	}
	norm := func(p string) string {
		if p == "" {
			return "/"
		}
		if p[0] != '/' {
			return "/" + p
		}
		return p
	}
	count := map[key]int{}
	for _, f := range fl {
		count[key{f.use, norm(f.path)}]++
	}
	var walk func(regs []Reg, prefix string, inGroup bool)
	inMount := false
	walk = func(regs []Reg, prefix string, inGroup bool) {
		for i := range regs {
			g := &regs[i]
			full := g.Path
			if g.Path == "\x00none" {
				full = ""
			}
			if inMount && full == "" {
				full = "/"
			}
			if inGroup {
				full = groupPath(prefix, full)
			}
			if g.Kind == "group" {
				walk(g.Items, full, true)
			}
			if g.Kind == "mount" {
				mp := strings.TrimRight(full, "/")
				if mp == "" {
					mp = "/"
				}
				inMount = true
				walk(g.Items, mp, true)
				inMount = false
			}
			for j := range g.H {
				h := &g.H[j]
				if h.Act != "path" && h.Act != "method" && h.Act != "rewrite" {
					continue
				}
				if count[key{g.Kind == "use", norm(full)}] > 1 || j != len(g.H)-1 {
					h.Act, h.Arg = "next", ""
					dropped++
				}
			}
		}
	}
	walk(c.Regs, "", false)
	return dropped
}

func genCase(t *rapid.T) Case {
	c := Case{CS: rapid.Bool().Draw(t, "cs"), Strict: rapid.Bool().Draw(t, "strict"), Unesc: rapid.Bool().Draw(t, "unesc"),
		Custom: rapid.IntRange(0, 3).Draw(t, "custom") == 0}
	g := &gen{t: t, methods: defMethods, reqs: reqPaths}
	if rapid.IntRange(0, 5).Draw(t, "reqmethods") == 0 {
		c.ReqMethods = customMethods
		g.methods = customMethods
	}
	n := rapid.IntRange(1, 9).Draw(t, "nregs")
	for i := 0; i < n && len(c.Regs) < 12; i++ {
		c.Regs = append(c.Regs, g.reg(0, c.Regs, routePaths)...)
	}
	sanitize(&c)
	if rapid.IntRange(0, 3).Draw(t, "late") == 0 {
		c.Late = rapid.IntRange(1, len(c.Regs)).Draw(t, "nlate")
	}
	c.Method = rapid.SampledFrom(g.methods).Draw(t, "method")
	base := rapid.SampledFrom(reqPaths).Draw(t, "req")
	if rapid.Bool().Draw(t, "fromtable") {
		// derive the request from a registered pattern so that deep chains are common
		var fl []flat
		flatten("", false, c.Regs, allMethods(c), &fl)
		f := fl[rapid.IntRange(0, len(fl)-1).Draw(t, "fromreg")]
		if p := fillPattern(t, f.path); p != "" {
			base = p
		}
	}
	c.Path = mutatePath(t, base)
	return c
}

var propDispatch = vk.Register(&vk.Prop[Case]{
	Property: property, Name: "dispatch", Gen: genCase, Check: check, Classify: classify,
	Quick: 60000, Thorough: 250000,
})

func TestDispatch(t *testing.T) { propDispatch.Run(t) }

// fillPattern turns a route pattern from the pools into a concrete path (crude textual filling; any result is a valid
// request because the oracle decides matching independently).
func fillPattern(t *rapid.T, p string) string {
	if p == "" {
		return "/"
	}
	if p[0] != '/' {
		p = "/" + p
	}
	v := rapid.SampledFrom([]string{"q", "x", "b", "q/r"}).Draw(t, "fillv")
	r := strings.NewReplacer(":p?", v, ":q?", v, ":p", v, ":q", v, ":t", v, "*", v, "+", v, "\\:", ":")
	out := r.Replace(p)
	if strings.HasPrefix(out, "//") || strings.ContainsAny(out, "?#") {
		return ""
	}
	return out
}
func FuzzDispatch(f *testing.F) { propDispatch.Fuzz(f) }
