package c13

import (
	"flag"
	"fmt"
	"net"
	"testing"
	"time"

	"github.com/gofiber/fiber/v3"
	"github.com/gofiber/fiber/v3/middleware/limiter"
	"github.com/valyala/fasthttp"
	"pgregory.net/rapid"

	"verifharness/vk"
)

// ---- the default store's collector runs beside the requests -------------------------------------------------------
//
// The default (in-memory) store has a collector goroutine that wakes once per real second, lists the expired keys under
// the read lock and deletes them under the write lock. Requests that open a new window for an expired key while it is
// at work must keep their hit: the collector may only take away what is still expired when it deletes.
//
// NKeys keys (Max = 1) use up their window; the (virtual) clock moves past the window, so every entry is expired. The
// first pass then sends one request per key, paced so that the pass spans more than one real second - the collector
// wakes somewhere in the middle, and with tens of thousands of entries its listing takes long enough for requests to
// arrive while it holds the read lock (their Set waits for it and runs before the collector gets the write lock).
// Second pass, same virtual instant: every key has used its one request of the new window - each must be refused.
// The oracle does not depend on timing: on a correct tree it holds wherever the collector wakes; timing only decides
// whether the case exercises the overlap.

type GCCase struct {
	NKeys   int
	Sliding bool
}

func checkGC(c GCCase) vk.Verdict {
	clockMu.Lock()
	defer clockMu.Unlock()
	vk.SetNow(9_000_000)
	cfg := limiter.Config{Max: 1, Expiration: 10 * time.Second, KeyGenerator: func(ctx fiber.Ctx) string { return ctx.Get("X-K") }}
	if c.Sliding {
		cfg.LimiterMiddleware = limiter.SlidingWindow{}
	}
	app := fiber.New()
	app.Use(limiter.New(cfg))
	app.Get("/", func(ctx fiber.Ctx) error { return ctx.SendString("ok") })
	h := app.Handler()
	rc := &fasthttp.RequestCtx{}
	do := func(key string) int {
		var req fasthttp.Request
		req.Header.SetMethod("GET")
		req.SetRequestURI("/")
		req.Header.Set("X-K", key)
		rc.Init(&req, &net.TCPAddr{IP: net.IPv4(10, 0, 0, 9), Port: 1234}, nil)
		rc.Response.Reset() // (Init keeps the previous answer)
		h(rc)
		return rc.Response.StatusCode()
	}
	keys := make([]string, c.NKeys)
	for i := range keys {
		keys[i] = fmt.Sprintf("gc-key-%d", i)
		if st := do(keys[i]); st != 200 {
			return vk.Failf("first request of key %s answered %d", keys[i], st)
		}
	}
	// past the window (sliding: past the following window too, nothing of the old hits weighs on the new window)
	vk.Advance(25)
	start := time.Now()
	span := 1300 * time.Millisecond
	for i, k := range keys {
		// pace the pass over a little more than one real second
		for time.Since(start) < span*time.Duration(i)/time.Duration(len(keys)) {
		}
		if st := do(k); st != 200 {
			return vk.Failf("key %s, first request of a new window (the old one ended %d s ago): answered %d", k, 15, st)
		}
	}
	took := time.Since(start)
	lost := 0
	first := ""
	for _, k := range keys {
		if st := do(k); st != 429 {
			lost++
			if first == "" {
				first = fmt.Sprintf("%s answered %d", k, st)
			}
		}
	}
	if lost > 0 {
		return vk.Failf("GC-OVERLAP %d of %d keys (Max=1, sliding=%v): the second request of the new window was admitted (%s) - the hit of the first one was forgotten while the store's collector ran beside the requests (first pass took %v)", lost, c.NKeys, c.Sliding, first, took)
	}
	v := vk.Verdict{NonTrivial: took >= time.Second, Classes: []string{fmt.Sprintf("sliding=%v", c.Sliding)}}
	if v.NonTrivial {
		v.Classes = append(v.Classes, "pass-spans-a-collector-tick")
	}
	return v
}

var propGC = vk.Register(&vk.Prop[GCCase]{Property: property, Name: "collector", Check: checkGC, Quick: 2, Thorough: 12,
	Gen: func(t *rapid.T) GCCase {
		return GCCase{NKeys: rapid.SampledFrom([]int{20000, 40000}).Draw(t, "nkeys"), Sliding: rapid.Bool().Draw(t, "sliding")}
	}})

func TestCollector(t *testing.T) {
	_ = flag.Set("rapid.shrinktime", "1ns") // cases run in real time: no minimisation
	defer func() { _ = flag.Set("rapid.shrinktime", "30s") }()
	propGC.Run(t)
}
