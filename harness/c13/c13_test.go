package c13

import (
	"fmt"
	"math"
	"os"
	"os/exec"
	"strconv"
	"strings"
	"sync"
	"testing"
	"time"

	"github.com/gofiber/fiber/v3"
	"github.com/gofiber/fiber/v3/middleware/limiter"
	"github.com/valyala/fasthttp"
	"pgregory.net/rapid"

	"verifharness/vk"
)

const property = "C13"

func TestMain(m *testing.M) {
	if os.Getenv("VK_C13_REALCLOCK") != "" {
		os.Exit(realClockChild()) // a process of its own: nothing in it has touched the framework's cached clock
	}
	vk.Main(m, property)
}

func TestAAACorpus(t *testing.T)    { vk.TestCorpus(t, property) }
func TestAAAWitnesses(t *testing.T) { vk.TestWitnesses(t, property) }
func TestReplay(t *testing.T)       { vk.TestReplay(t) }

type Op struct {
	Kind   string // req | adv
	Key    string `json:",omitempty"`
	Limit  int    `json:",omitempty"` // value MaxFunc returns for this request
	Pre201 bool   `json:",omitempty"` // with ViaErr: the handler sets status 201 before it returns the error
	ViaErr bool   `json:",omitempty"` // a failing handler returns fiber.NewError(status) instead of writing the status itself
	Status int    `json:",omitempty"` // status the protected handler answers
	Dt     int    `json:",omitempty"` // adv: seconds
	Slow   int    `json:",omitempty"` // req: the protected handler takes this many seconds (the window may roll over meanwhile)
}

type Case struct {
	Algo             string // fixed | sliding
	Store            string // memory | vk | vk-nottl
	Exp              int
	Max              int // Config.Max (MaxFunc is what counts)
	SkipOK, SkipFail bool
	T0               int
	Ops              []Op
	Conn             bool `json:",omitempty"` // all requests are served by one recycled RequestCtx (one keep-alive connection)
	Default          bool `json:",omitempty"` // limiter.New() without a Config: 5 requests per minute and client IP
	SubSec           bool `json:",omitempty"` // Expiration is 500ms (below the limiter's one-second resolution); the history then has no clock advances
}

// keygenHook, when set, runs inside the KeyGenerator callback (a yield point for the cooperative scheduler)
var keygenHook func(key string)

func newLimiter(c Case, st *vk.Storage, onHandler func(fiber.Ctx)) *fiber.App {
	cfg := limiter.Config{
		Max: c.Max, Expiration: expiration(c),
		MaxFunc: func(ctx fiber.Ctx) int {
			n, err := strconv.Atoi(ctx.Query("lim"))
			if err != nil {
				return c.Max
			}
			return n
		},
		KeyGenerator: func(ctx fiber.Ctx) string {
			if keygenHook != nil {
				keygenHook(ctx.Query("k")) // (a key generator may take its time: a lookup, a parsed token)
			}
			return ctx.Query("k")
		},
		SkipSuccessfulRequests: c.SkipOK, SkipFailedRequests: c.SkipFail,
	}
	if c.Algo == "sliding" {
		cfg.LimiterMiddleware = limiter.SlidingWindow{}
	}
	if st != nil {
		cfg.Storage = st
	}
	app := fiber.New()
	if c.Default {
		app.Use(limiter.New())
	} else {
		app.Use(limiter.New(cfg))
	}
	app.Get("/", func(ctx fiber.Ctx) error {
		onHandler(ctx)
		if slow, _ := strconv.Atoi(ctx.Query("slow")); slow > 0 {
			vk.Advance(uint32(slow))
		}
		st, _ := strconv.Atoi(ctx.Query("st"))
		if st == 0 {
			st = 200
		}
		if st >= 400 && ctx.Query("viaerr") == "1" {
			if ctx.Query("pre") == "1" {
				ctx.Status(fiber.StatusCreated) // the handler had got as far as setting its success status when it failed
			}
			return fiber.NewError(st, "failed") // the idiomatic way to fail: the ErrorHandler writes the status later
		}
		return ctx.SendStatus(st)
	})
	return app
}

// expiration: whole seconds, or 500ms for SubSec cases. Whatever window the limiter derives from a sub-second value,
// requests that arrive within one instant share it: the first `limit` are admitted, the following ones are not.
func expiration(c Case) time.Duration {
	if c.SubSec {
		return 500 * time.Millisecond
	}
	return time.Duration(c.Exp) * time.Second
}

type win struct {
	live             bool
	end              uint32
	adm, all         int // hits in the current window: admitted only / including rejected requests
	prevAdm, prevAll int // sliding: previous window
	altAdm, altAll   int // sliding: alternative reading of prev after a long gap (record kept vs. expired)
}

var clockMu sync.Mutex // the virtual clock is process global

func check(c Case) vk.Verdict {
	clockMu.Lock()
	defer clockMu.Unlock()
	now := uint32(1_000_000 + c.T0)
	vk.SetNow(now)
	var st *vk.Storage
	if c.Store != "memory" {
		st = vk.NewStorage()
		st.NoTTL = c.Store == "vk-nottl"
		st.Retain = c.Store == "vk-retain"
	}
	admitted := 0
	app := newLimiter(c, st, func(fiber.Ctx) { admitted++ })
	do := func(uri string) *fasthttp.RequestCtx { return vk.Do(app, "GET", uri) }
	if c.Conn {
		conn := &vk.Reuse{}
		do = func(uri string) *fasthttp.RequestCtx { return conn.Do(app, "GET", uri) }
	}
	model := map[string]*win{}
	v := vk.Verdict{Classes: []string{"algo:" + c.Algo, "store:" + c.Store}}
	crossed, rejected, dynamic := false, false, false
	exp := uint32(c.Exp)
	if c.SubSec {
		exp = 1 << 20 // no clock advance in such a case: the window never rolls in the model
	}
	if c.Default {
		c.Algo, c.Max, c.Exp, c.SkipOK, c.SkipFail, c.SubSec, c.Store = "fixed", 5, 60, false, false, false, "memory"
		exp = 60
	}
	for i, op := range c.Ops {
		if v := vk.Now(); v > now {
			now = v // a slow handler of the previous request moved the clock
		}
		if c.Default && op.Kind == "req" {
			op.Key, op.Limit = "ip", 5 // every request of the harness comes from one address
		}
		if op.Kind == "adv" {
			if c.SubSec {
				continue
			}
			now += uint32(op.Dt)
			vk.SetNow(now)
			continue
		}
		w := model[op.Key]
		if w == nil {
			w = &win{}
			model[op.Key] = w
		}
		limit := op.Limit
		if limit != c.Max {
			dynamic = true
		}
		if limit == 0 {
			// MaxFunc == 0 disables the limiter for this request: no window is started or touched
			before := admitted
			do(fmt.Sprintf("/?k=%s&st=%d&lim=0", op.Key, op.Status))
			if admitted == before {
				return vk.Failf("op %d: MaxFunc returned 0 (limiter disabled for this request) but the handler did not run", i)
			}
			continue
		}
		// roll the model's window
		if !w.live {
			w.live, w.end = true, now+exp
		} else if now >= w.end {
			elapsed := now - w.end
			if c.Algo == "sliding" {
				if w.adm+w.all > 0 {
					crossed = true
				}
				w.prevAdm, w.prevAll = w.adm, w.all
				w.altAdm, w.altAll = w.adm, w.all
				if elapsed >= exp {
					// a whole window without traffic: the old hits lie outside every sliding window; an implementation may
					// have dropped the record (TTL) or still carry it - both readings are allowed
					w.end = now + exp
					w.prevAdm, w.prevAll = 0, 0
				} else {
					w.end = now + exp - elapsed
				}
			} else {
				if w.all > 0 {
					crossed = true
				}
				w.end = now + exp
			}
			w.adm, w.all = 0, 0
		}
		before := admitted
		viaErr := 0
		if op.ViaErr {
			viaErr = 1
		}
		pre := 0
		if op.Pre201 {
			pre = 1
		}
		r := do(fmt.Sprintf("/?k=%s&st=%d&lim=%d&slow=%d&viaerr=%d&pre=%d", op.Key, op.Status, limit, op.Slow, viaErr, pre))
		ran := admitted > before
		retryNow := now // (a slow handler moved the clock meanwhile; everything below is judged at the time of arrival, and a
		// give-back belongs to the window the hit was counted in - the model rolls its window lazily at the next request)
		status := r.Response.StatusCode()
		ctx := fmt.Sprintf("op %d (key %s limit %d) at t=%d, %s/%s exp=%ds window end=%d admitted=%d all=%d prev=%d/%d", i, op.Key, limit, now-1_000_000-uint32(c.T0), c.Algo, c.Store, c.Exp, w.end-1_000_000-uint32(c.T0), w.adm, w.all, w.prevAdm, w.prevAll)
		if limit > 0 {
			if c.Algo == "fixed" {
				if ran && w.adm >= limit {
					return vk.Failf("%s: over-admission: %d requests already reached the handler in this window", ctx, w.adm)
				}
				if !ran && w.all < limit {
					return vk.Failf("%s: rejected (status %d) although only %d requests (rejected ones included) were counted in this window", ctx, status, w.all)
				}
			} else {
				weight := float64(w.end-now) / float64(exp)
				loPrev := w.prevAdm
				hiPrev := w.prevAll

				rateFloor := math.Floor(float64(loPrev)*weight) + float64(w.adm+1)
				rateReal := float64(hiPrev)*weight + float64(w.all+1)
				if ran && rateFloor > float64(limit) {
					return vk.Failf("%s: over-admission: floor(%d*%.3f)+%d+1 = %.0f > %d", ctx, loPrev, weight, w.adm, rateFloor, limit)
				}
				if !ran && rateReal <= float64(limit) {
					return vk.Failf("%s: rejected (status %d) although %d*%.3f+%d+1 = %.3f <= %d", ctx, status, hiPrev, weight, w.all, rateReal, limit)
				}
			}
		} else if limit < 0 {
			// a negative limit admits nothing (only 0 means "no limit")
			if ran {
				return vk.Failf("%s: MaxFunc returned %d but the request reached the handler", ctx, limit)
			}
		} else if !ran {
			return vk.Failf("%s: MaxFunc returned 0 (limiter disabled for this request) but the handler did not run", ctx)
		}
		if limit == 0 {
			continue
		}
		w.all++
		if ran {
			w.adm++
			if (c.SkipOK && op.Status < 400) || (c.SkipFail && op.Status >= 400) {
				w.adm--
				w.all--
			}
			if status != op.Status {
				return vk.Failf("%s: admitted request answered %d, handler sent %d", ctx, status, op.Status)
			}
		} else {
			rejected = true
			if status != 429 {
				return vk.Failf("%s: rejected request answered %d, want 429", ctx, status)
			}
			ra, err := strconv.Atoi(string(r.Response.Header.Peek("Retry-After")))
			if err != nil {
				return vk.Failf("%s: 429 without a numeric Retry-After (%q)", ctx, r.Response.Header.Peek("Retry-After"))
			}
			if !c.SubSec && uint32(ra) != w.end-retryNow {
				return vk.Failf("%s: Retry-After %d, want %d (time until the window resets)", ctx, ra, w.end-retryNow)
			}
		}
	}
	v.NonTrivial = crossed || rejected || dynamic
	if crossed {
		v.Classes = append(v.Classes, "crossed-window")
	}
	if rejected {
		v.Classes = append(v.Classes, "rejection")
	}
	if dynamic {
		v.Classes = append(v.Classes, "maxfunc!=max")
	}
	return v
}

func genCase(t *rapid.T) Case {
	c := Case{Algo: rapid.SampledFrom([]string{"fixed", "sliding"}).Draw(t, "algo"), Store: rapid.SampledFrom([]string{"memory", "vk", "vk-nottl", "vk-retain"}).Draw(t, "store"),
		Exp: rapid.IntRange(1, 10).Draw(t, "exp"), Max: rapid.IntRange(1, 5).Draw(t, "max"), T0: rapid.IntRange(0, 1000).Draw(t, "t0")}
	switch rapid.IntRange(0, 3).Draw(t, "skip") {
	case 0:
		c.SkipOK = true
	case 1:
		c.SkipFail = true
	}
	c.SubSec = rapid.IntRange(0, 9).Draw(t, "subsec") == 0
	c.Default = rapid.IntRange(0, 19).Draw(t, "default") == 0
	c.Conn = rapid.IntRange(0, 2).Draw(t, "conn") == 0
	mode := rapid.SampledFrom([]string{"const", "const", "constdiff", "dynamic"}).Draw(t, "maxmode")
	constLimit := c.Max
	if mode == "constdiff" {
		constLimit = rapid.IntRange(1, 5).Draw(t, "constlimit")
	}
	nkeys := rapid.IntRange(1, 3).Draw(t, "nkeys")
	n := rapid.IntRange(1, 30).Draw(t, "nops")
	for i := 0; i < n; i++ {
		if rapid.IntRange(0, 3).Draw(t, "op") == 0 {
			c.Ops = append(c.Ops, Op{Kind: "adv", Dt: rapid.IntRange(0, 2*c.Exp).Draw(t, "dt")})
			continue
		}
		o := Op{Kind: "req", Key: rapid.SampledFrom([]string{"a", "b", "c"}[:nkeys]).Draw(t, "k"), Status: rapid.SampledFrom([]int{200, 200, 500, 404}).Draw(t, "st"), Limit: constLimit, ViaErr: rapid.Bool().Draw(t, "viaerr"), Pre201: rapid.IntRange(0, 2).Draw(t, "pre201") == 0}
		if !c.SubSec && rapid.IntRange(0, 7).Draw(t, "slow") == 0 {
			o.Slow = rapid.IntRange(1, 2*c.Exp).Draw(t, "slowsecs")
		}
		if mode == "dynamic" {
			o.Limit = rapid.IntRange(-1, 5).Draw(t, "lim")
		}
		c.Ops = append(c.Ops, o)
	}
	return c
}

var propHist = vk.Register(&vk.Prop[Case]{Property: property, Name: "history", Gen: genCase, Check: check, Quick: 20000, Thorough: 40000})

func TestHistory(t *testing.T) { propHist.Run(t) }

// ---- concurrent requests under the cooperative scheduler ------------------------------------------------

type ConcCase struct {
	Algo             string
	Store            string // memory | vk
	Limit            int
	SkipOK, SkipFail bool
	Keys             []string // one entry per concurrent request
	Statuses         []int    // status the handler answers for the i-th concurrent request
	Picks            []int    // scheduler choices
	Tail             int      // sequential requests (status 200 / 500 so that they are never skipped) sent per key after the phase
	Park             bool     `json:",omitempty"` // with Tick: request 0 is held in its key generator while the clock moves on and all others complete
	Tick             bool     `json:",omitempty"` // one more task: the clock moves on by a whole window (60 s) at a point the schedule picks
}

func (c ConcCase) skipped(status int) bool {
	return (c.SkipOK && status < 400) || (c.SkipFail && status >= 400)
}

func checkConc(c ConcCase) vk.Verdict {
	clockMu.Lock()
	defer clockMu.Unlock()
	vk.SetNow(5_000_000)
	s := vk.NewSched()
	var st *vk.Storage
	if c.Store != "memory" {
		st = vk.NewStorage()
		st.Sched = s
		st.Retain = c.Store == "vk-retain"
	}
	var mu sync.Mutex
	ran := map[string]int{}
	skippedRan := map[string]int{}
	app := newLimiter(Case{Algo: c.Algo, Exp: 60, Max: c.Limit, SkipOK: c.SkipOK, SkipFail: c.SkipFail}, st, func(ctx fiber.Ctx) {
		k := ctx.Query("k")
		s.Yield("handler<" + k)
		mu.Lock()
		ran[k]++
		if st, _ := strconv.Atoi(ctx.Query("st")); c.skipped(st) {
			skippedRan[k]++
		}
		mu.Unlock()
		s.Yield("handler>" + k)
	})
	app.Handler()
	keygenHook = func(k string) {
		if sc := s; sc != nil {
			sc.Yield("keygen<" + k)
		}
	}
	defer func() { keygenHook = nil }()
	type answer struct {
		key        string
		status     int
		retryAfter string
	}
	var answers []answer
	note := func(k string, r *fasthttp.RequestCtx) {
		mu.Lock()
		answers = append(answers, answer{k, r.Response.StatusCode(), string(r.Response.Header.Peek("Retry-After"))})
		mu.Unlock()
	}
	for i, k := range c.Keys {
		i, k := i, k
		status := 200
		if i < len(c.Statuses) {
			status = c.Statuses[i]
		}
		s.Spawn(i, func() {
			note(k, vk.Do(app, "GET", fmt.Sprintf("/?k=%s&lim=%d&st=%d", k, c.Limit, status)))
		})
	}
	ntasks := len(c.Keys)
	if c.Tick {
		sc := s
		s.Spawn(ntasks, func() {
			sc.Yield("tick<")
			vk.Advance(60)
			sc.Yield("tick>")
		})
		ntasks++
	}
	pi := 0
	res := s.Run(ntasks, func(ready []int) int {
		if c.Tick && c.Park {
			// request 0 is held up inside its key generator; the clock moves on; everybody else runs to completion; then
			// request 0 goes on
			held := false
			for _, e := range s.Trace {
				if strings.HasPrefix(e, "0@keygen<") {
					held = true
				}
			}
			idx := func(g int) int {
				for i, r := range ready {
					if r == g {
						return i
					}
				}
				return -1
			}
			if !held {
				if i := idx(0); i >= 0 {
					return i
				}
				return 0
			}
			if i := idx(len(c.Keys)); i >= 0 {
				return i // the clock task
			}
			for i, r := range ready {
				if r != 0 {
					return i
				}
			}
			return 0
		}
		p := 0
		if pi < len(c.Picks) {
			p = c.Picks[pi]
		}
		pi++
		return p
	})
	ctx := fmt.Sprintf("%s/%s limit %d skipOK=%v skipFail=%v, concurrent keys %v statuses %v, schedule %v", c.Algo, c.Store, c.Limit, c.SkipOK, c.SkipFail, c.Keys, c.Statuses, s.Trace)
	if len(res.Panics) > 0 {
		return vk.Failf("%s: panic: %s", ctx, res.Panics[0])
	}
	if res.Deadlock {
		return vk.Failf("%s: deadlock, stuck tasks %v", ctx, res.Stuck)
	}
	if st != nil {
		st.Sched = nil
	}
	s = nil
	perKey := map[string]int{}
	for _, k := range c.Keys {
		perKey[k]++
	}
	// sequential tail in the same window: requests that are never given back
	tailStatus := 200
	if c.SkipOK {
		tailStatus = 500
	}
	for k := range perKey {
		for j := 0; j < c.Tail; j++ {
			note(k, vk.Do(app, "GET", fmt.Sprintf("/?k=%s&lim=%d&st=%d", k, c.Limit, tailStatus)))
		}
	}
	// whatever the schedule and wherever the clock moved on: a rejection names a wait of at most one window, and a key
	// that sent no more requests than its limit in all was never out of budget (each window holds at most that many hits,
	// the previous window's hits weigh at most 1)
	for _, a := range answers {
		if a.status != fiber.StatusTooManyRequests {
			continue
		}
		if ra, err := strconv.Atoi(a.retryAfter); err != nil || ra < 0 || ra > 60 {
			return vk.Failf("%s (tick=%v): a request of key %s was rejected with Retry-After %q, the window is 60 s long", ctx, c.Tick, a.key, a.retryAfter)
		}
		if perKey[a.key]+c.Tail <= c.Limit {
			return vk.Failf("%s (tick=%v): a request of key %s was rejected although the key sent %d requests in all, limit %d", ctx, c.Tick, a.key, perKey[a.key]+c.Tail, c.Limit)
		}
	}
	overlap := false
	if c.Tick {
		// (the counts below are per window; with a clock step in the middle of the phase they do not apply)
		return vk.Verdict{NonTrivial: true, Classes: []string{"algo:" + c.Algo, "store:" + c.Store, "clock-step-in-the-phase"}}
	}
	for k, n := range perKey {
		// every admitted request that is not given back consumes one unit: at most limit of them may ever reach the handler in
		// this window; requests that were given back (skip options) do not count
		if counted := ran[k] - skippedRan[k]; counted > c.Limit {
			return vk.Failf("%s: key %s: %d requests that count against the limit reached the handler (%d in total, %d of them given back), limit %d", ctx, k, counted, ran[k], skippedRan[k], c.Limit)
		}
		if !c.SkipOK && !c.SkipFail {
			want := n + c.Tail
			if want > c.Limit {
				want = c.Limit
			}
			if ran[k] != want {
				return vk.Failf("%s: key %s: %d of %d requests reached the handler, want %d (budget not exhausted => no rejection)", ctx, k, ran[k], n+c.Tail, want)
			}
		}
		// with skip options no lower bound is asserted: whether rejected requests consume budget is left open by the statement
		if n+c.Tail > c.Limit {
			overlap = true
		}
	}
	classes := []string{"algo:" + c.Algo, "store:" + c.Store, fmt.Sprintf("blocked-steps>0:%v", res.Blocked > 0)}
	if c.SkipOK || c.SkipFail {
		classes = append(classes, "skip-option")
	}
	return vk.Verdict{NonTrivial: overlap, Classes: classes}
}

var propConc = vk.Register(&vk.Prop[ConcCase]{Property: property, Name: "concurrent", Check: checkConc, Quick: 2400, Thorough: 10000,
	Gen: func(t *rapid.T) ConcCase {
		c := ConcCase{Algo: rapid.SampledFrom([]string{"fixed", "sliding"}).Draw(t, "algo"), Store: rapid.SampledFrom([]string{"memory", "vk", "vk", "vk-retain"}).Draw(t, "store"),
			Limit: rapid.IntRange(1, 3).Draw(t, "limit")}
		c.Keys = rapid.SliceOfN(rapid.SampledFrom([]string{"a", "a", "b"}), 2, 4).Draw(t, "keys")
		c.Picks = rapid.SliceOfN(rapid.IntRange(0, 3), 0, 60).Draw(t, "picks")
		switch rapid.IntRange(0, 2).Draw(t, "skip") {
		case 0:
			c.SkipFail = true
		case 1:
			c.SkipOK = true
		}
		for range c.Keys {
			c.Statuses = append(c.Statuses, rapid.SampledFrom([]int{200, 200, 500}).Draw(t, "status"))
		}
		c.Tail = rapid.IntRange(0, 4).Draw(t, "tail")
		c.Tick = rapid.Bool().Draw(t, "tick")
		if c.Tick {
			c.Limit = rapid.IntRange(1, 6).Draw(t, "ticklimit") // (also limits the key never reaches)
			c.Park = rapid.Bool().Draw(t, "park")
		}
		return c
	}})

func TestConcurrent(t *testing.T) { propConc.Run(t) }

// ---- the limiter's own clock, in a process that nobody else has started it in -----------------------------------------
//
// Everything above drives time through the virtual clock, i.e. by owning the cached timestamp the limiter reads; whether
// the limiter keeps that timestamp running by itself cannot be seen that way. This test re-executes the test binary
// (environment VK_C13_REALCLOCK): in the child no harness code touches the clock, the limiter is configured with an
// external storage that keeps time by the wall clock (so the in-memory store, which would start the clock, is never
// built), and real seconds pass. Oracle (fixed window): Max=1, Expiration=2 s - after the first request one request
// every 500 ms is sent for 7 s; every one of them rewrites the stored entry. Some request from 4.5 s on at the latest
// must be admitted again: by then more than two windows have passed, the budget is not exhausted.

type wallStorage struct {
	mu sync.Mutex
	m  map[string]wallEntry
}

type wallEntry struct {
	v   []byte
	exp time.Time
}

func (s *wallStorage) Get(k string) ([]byte, error) {
	s.mu.Lock()
	defer s.mu.Unlock()
	e, ok := s.m[k]
	if !ok || (!e.exp.IsZero() && time.Now().After(e.exp)) {
		return nil, nil
	}
	return append([]byte(nil), e.v...), nil
}

func (s *wallStorage) Set(k string, v []byte, ttl time.Duration) error {
	s.mu.Lock()
	defer s.mu.Unlock()
	e := wallEntry{v: append([]byte(nil), v...)}
	if ttl > 0 {
		e.exp = time.Now().Add(ttl)
	}
	s.m[k] = e
	return nil
}

func (s *wallStorage) Delete(k string) error { s.mu.Lock(); delete(s.m, k); s.mu.Unlock(); return nil }
func (s *wallStorage) Reset() error {
	s.mu.Lock()
	s.m = map[string]wallEntry{}
	s.mu.Unlock()
	return nil
}
func (s *wallStorage) Close() error { return nil }

func realClockChild() int {
	var wg sync.WaitGroup
	// (fixed window only: under the sliding window fiber counts rejected requests as hits, so a client that keeps asking
	// every 500 ms stays rejected - whether those are "hits" is not something the statement settles, see the history oracle)
	results := make([]string, 1)
	for i, sliding := range []bool{false} {
		wg.Add(1)
		go func(i int, sliding bool) {
			defer wg.Done()
			cfg := limiter.Config{Max: 1, Expiration: 2 * time.Second, Storage: &wallStorage{m: map[string]wallEntry{}}, KeyGenerator: func(fiber.Ctx) string { return "k" }}
			name := "fixed"
			if sliding {
				cfg.LimiterMiddleware = limiter.SlidingWindow{}
				name = "sliding"
			}
			app := fiber.New()
			app.Use(limiter.New(cfg))
			app.Get("/", func(c fiber.Ctx) error { return c.SendString("ok") })
			start := time.Now()
			var hist []string
			admittedLate := false
			for n := 0; time.Since(start) < 7*time.Second; n++ {
				st := vk.Do(app, "GET", "/").Response.StatusCode()
				at := time.Since(start)
				hist = append(hist, fmt.Sprintf("%.1fs:%d", at.Seconds(), st))
				if n == 0 && st != 200 {
					results[i] = fmt.Sprintf("%s: the first request was answered %d", name, st)
					return
				}
				if n > 0 && st == 200 && at >= 1500*time.Millisecond {
					admittedLate = true
					break
				}
				time.Sleep(500 * time.Millisecond)
			}
			if !admittedLate {
				results[i] = fmt.Sprintf("%s window, Max 1 per 2 s, external storage on the wall clock, one request every 500 ms for 7 s: after the first request none was ever admitted again (%s)", name, strings.Join(hist, " "))
			}
		}(i, sliding)
	}
	wg.Wait()
	for _, r := range results {
		if r != "" {
			fmt.Println("REALCLOCK FAIL: " + r)
			return 0
		}
	}
	fmt.Println("REALCLOCK OK")
	return 0
}

type ClockCase struct{ Note string }

var propClock = vk.Register(&vk.Prop[ClockCase]{Property: property, Name: "realclock", Gen: func(*rapid.T) ClockCase { return ClockCase{} },
	Check: func(ClockCase) vk.Verdict { return vk.Verdict{Skip: true} }, Quick: 1, Thorough: 1})

func TestRealClock(t *testing.T) {
	vk.ShardZeroOnly(t)
	cmd := exec.Command(os.Args[0], "-test.run=^$")
	cmd.Env = append(os.Environ(), "VK_C13_REALCLOCK=1")
	out, err := cmd.CombinedOutput()
	text := string(out)
	vk.Rec.Count("realclock", 1, true, []string{"limiter-keeps-its-own-clock-running"}, func() any { return map[string]any{"child_output": strings.TrimSpace(text)} })
	switch {
	case strings.Contains(text, "REALCLOCK OK"):
	case strings.Contains(text, "REALCLOCK FAIL: "):
		msg := text[strings.Index(text, "REALCLOCK FAIL: ")+len("REALCLOCK FAIL: "):]
		msg = strings.TrimSpace(strings.SplitN(msg, "\n", 2)[0])
		path := vk.SaveReplay(propClock, ClockCase{Note: msg}, msg)
		vk.Rec.Violation("realclock", path)
		t.Errorf("VIOLATION-CANDIDATE property=%s test=realclock replay=%s\n%s", property, path, msg)
	default:
		t.Skipf("inconclusive: the child process gave no verdict (%v): %s", err, text)
	}
}

// ---- a handler that outlives its window while the key is used in the next one ----------------------------------------
//
// Fixed window, skip option on, one key "a": k requests are admitted, the last of them belongs to the skipped class and is
// slow - while its handler runs, the window ends (virtual clock) and n further requests for "a" arrive (nested: served by
// the same app from inside the handler) and are counted in the new window. Then the slow handler returns: its hit belongs
// to a window that is over, nothing is to be given back. Oracle, all in the new window: a fresh key "b" gets exactly Limit
// of Limit+1 requests through (other keys are unaffected), and "a" gets exactly Limit-n more (its n hits still count).

type RollCase struct {
	Store      string // memory | vk
	Limit      int
	SkipOK     bool // else SkipFailedRequests
	Before     int  // admitted requests of "a" before the slow one (0..Limit-1)
	Nested     int  // requests for "a" in the new window while the slow handler runs (1..Limit)
	ViaErr     bool
	OtherFirst bool // the fresh key is used before "a" is used again
}

func checkRoll(c RollCase) vk.Verdict {
	clockMu.Lock()
	defer clockMu.Unlock()
	vk.SetNow(6_000_000)
	var st *vk.Storage
	if c.Store != "memory" {
		st = vk.NewStorage()
	}
	var app *fiber.App
	ran := map[string]int{}
	nestedRan := 0
	app = newLimiter(Case{Algo: "fixed", Exp: 10, Max: c.Limit, SkipOK: c.SkipOK, SkipFail: !c.SkipOK}, st, func(ctx fiber.Ctx) {
		ran[ctx.Query("k")]++
		if ctx.Query("nest") != "" {
			n, _ := strconv.Atoi(ctx.Query("nest"))
			vk.Advance(11) // the window of this request is over
			for j := 0; j < n; j++ {
				before := ran["a"]
				vk.Do(app, "GET", fmt.Sprintf("/?k=a&lim=%d&st=%d", c.Limit, countedStatus(c)))
				if ran["a"] > before {
					nestedRan++
				}
			}
		}
	})
	app.Handler()
	via := 0
	if c.ViaErr {
		via = 1
	}
	for j := 0; j < c.Before; j++ {
		vk.Do(app, "GET", fmt.Sprintf("/?k=a&lim=%d&st=%d", c.Limit, countedStatus(c)))
	}
	if ran["a"] != c.Before {
		return vk.Failf("%+v: %d of the first %d requests for key a were admitted", c, ran["a"], c.Before)
	}
	vk.Do(app, "GET", fmt.Sprintf("/?k=a&lim=%d&st=%d&viaerr=%d&nest=%d", c.Limit, skippedStatus(c), via, c.Nested))
	if nestedRan != c.Nested {
		return vk.Failf("%+v: %d of the %d requests for key a that arrived in the new window (while the slow handler of the old one was still running) were admitted, limit %d", c, nestedRan, c.Nested, c.Limit)
	}
	useOther := func() string {
		before := ran["b"]
		for j := 0; j <= c.Limit; j++ {
			vk.Do(app, "GET", fmt.Sprintf("/?k=b&lim=%d&st=%d", c.Limit, countedStatus(c)))
		}
		if got := ran["b"] - before; got != c.Limit {
			return fmt.Sprintf("%+v: after the slow handler of key a returned, %d of %d requests for the fresh key b were admitted, want %d (other keys are unaffected)", c, got, c.Limit+1, c.Limit)
		}
		return ""
	}
	useA := func() string {
		before := ran["a"]
		for j := 0; j < c.Limit; j++ {
			vk.Do(app, "GET", fmt.Sprintf("/?k=a&lim=%d&st=%d", c.Limit, countedStatus(c)))
		}
		if got, want := ran["a"]-before, c.Limit-c.Nested; got != want {
			return fmt.Sprintf("%+v: key a had %d hits in its new window when the slow handler (whose hit belongs to the window before) returned; of %d further requests %d were admitted, want %d", c, c.Nested, c.Limit, got, want)
		}
		return ""
	}
	steps := []func() string{useA, useOther}
	if c.OtherFirst {
		steps = []func() string{useOther, useA}
	}
	for _, f := range steps {
		if msg := f(); msg != "" {
			return vk.Failf("%s", msg)
		}
	}
	return vk.Verdict{NonTrivial: true, Classes: []string{"store:" + c.Store, fmt.Sprintf("skipok:%v", c.SkipOK)}}
}

// countedStatus: a status that is NOT in the skipped class (the hit stays); skippedStatus: one that is.
func countedStatus(c RollCase) int {
	if c.SkipOK {
		return 500
	}
	return 200
}

func skippedStatus(c RollCase) int {
	if c.SkipOK {
		return 200
	}
	return 500
}

var propRoll = vk.Register(&vk.Prop[RollCase]{Property: property, Name: "slowroll", Check: checkRoll, Quick: 400, Thorough: 2000,
	Gen: func(t *rapid.T) RollCase {
		c := RollCase{Store: rapid.SampledFrom([]string{"memory", "memory", "vk"}).Draw(t, "store"), Limit: rapid.IntRange(1, 4).Draw(t, "limit"), SkipOK: rapid.Bool().Draw(t, "skipok"),
			ViaErr: rapid.Bool().Draw(t, "viaerr"), OtherFirst: rapid.Bool().Draw(t, "otherfirst")}
		c.Before = rapid.IntRange(0, c.Limit-1).Draw(t, "before")
		c.Nested = rapid.IntRange(1, c.Limit).Draw(t, "nested")
		return c
	}})

func TestSlowRoll(t *testing.T) { propRoll.Run(t) }

// ---- the weighted share of the previous window, exactly ----------------------------------------------------------------
//
// Sliding window with limits and windows of realistic size: p requests are admitted in one second of the first window
// (the limit is at least p), then the clock moves into the second window so that r of its E seconds remain. The share of
// the previous window is floor(p*r/E) - an integer computed exactly. Requests are sent until one is rejected: exactly
// Max - floor(p*r/E) of them may reach the handler, not one more (binary floating point gets p*(r/E) one too low for
// values like 90*(7/10)).

type FloorCase struct {
	Exp, Prev, Remain, Max int
	Store                  string
}

func checkFloor(c FloorCase) vk.Verdict {
	clockMu.Lock()
	defer clockMu.Unlock()
	vk.SetNow(7_000_000)
	var st *vk.Storage
	if c.Store != "memory" {
		st = vk.NewStorage()
	}
	ran := 0
	app := newLimiter(Case{Algo: "sliding", Exp: c.Exp, Max: c.Max}, st, func(fiber.Ctx) { ran++ })
	app.Handler()
	do := func() int { return vk.Do(app, "GET", fmt.Sprintf("/?k=a&lim=%d&st=200", c.Max)).Response.StatusCode() }
	for j := 0; j < c.Prev; j++ {
		do()
	}
	if ran != c.Prev {
		return vk.Failf("%+v: %d of the first %d requests were admitted (the limit is %d)", c, ran, c.Prev, c.Max)
	}
	vk.Advance(uint32(2*c.Exp - c.Remain)) // the first window ended after Exp seconds; Remain seconds of the second one are left
	share := c.Prev * c.Remain / c.Exp
	want := c.Max - share
	if want < 0 {
		want = 0
	}
	before := ran
	for j := 0; j < want+2; j++ {
		do()
	}
	if got := ran - before; got != want {
		return vk.Failf("%+v: %d requests in the previous window, %d of %d seconds of the current one left: the previous window weighs floor(%d*%d/%d) = %d, so %d of the limit %d are free - %d requests were admitted", c, c.Prev, c.Remain, c.Exp, c.Prev, c.Remain, c.Exp, share, want, c.Max, got)
	}
	frac := (c.Prev*c.Remain)%c.Exp == 0
	return vk.Verdict{NonTrivial: share > 0 && want > 0, Classes: []string{fmt.Sprintf("exact-multiple:%v", frac), "store:" + c.Store}}
}

var propFloor = vk.Register(&vk.Prop[FloorCase]{Property: property, Name: "slidingshare", Check: checkFloor, Quick: 300, Thorough: 3000,
	Gen: func(t *rapid.T) FloorCase {
		c := FloorCase{Exp: rapid.SampledFrom([]int{10, 30, 49, 60, 100}).Draw(t, "exp"), Store: rapid.SampledFrom([]string{"memory", "vk"}).Draw(t, "store")}
		c.Prev = rapid.IntRange(1, 100).Draw(t, "prev")
		c.Remain = rapid.IntRange(1, c.Exp-1).Draw(t, "remain")
		if rapid.Bool().Draw(t, "exactmultiple") {
			// the cases binary floating point gets wrong are among those where p*r/E is a whole number
			for c.Prev*c.Remain%c.Exp != 0 && c.Prev < 100 {
				c.Prev++
			}
		}
		c.Max = c.Prev + rapid.IntRange(0, 20).Draw(t, "headroom")
		return c
	}})

func TestSlidingShare(t *testing.T) { propFloor.Run(t) }
