package c15

import (
	"errors"
	"flag"
	"fmt"
	"sort"
	"strings"
	"sync"
	"testing"
	"time"

	"github.com/gofiber/fiber/v3"
	"github.com/gofiber/fiber/v3/middleware/session"
	"github.com/valyala/fasthttp"
	"pgregory.net/rapid"

	"verifharness/vk"
)

const property = "C15"

func TestMain(m *testing.M) { vk.Main(m, property) }

func TestAAACorpus(t *testing.T)    { vk.TestCorpus(t, property) }
func TestAAAWitnesses(t *testing.T) { vk.TestWitnesses(t, property) }
func TestReplay(t *testing.T)       { vk.TestReplay(t) }

type Step struct {
	Op string // set | del | destroy | regen | reset | idle (SetIdleTimeout) | save (explicit Save mid-handler)
	K  string `json:",omitempty"`
	V  string `json:",omitempty"`
	N  int    `json:",omitempty"` // idle: seconds
}

type ReqOp struct {
	Kind    string // req | adv | getbyid | delete | damaged | getfault
	Client  int    `json:",omitempty"`
	Present string `json:",omitempty"` // own | none | forged | stale | other
	Pick    int    `json:",omitempty"` // index into the stale list / other client
	Script  []Step `json:",omitempty"`
	Save    bool   `json:",omitempty"` // store API: call Save() at the end
	Dt      int    `json:",omitempty"` // adv: seconds
}

type Case struct {
	API      string // middleware | store
	Source   string // cookie | header | query
	Storage  string // vk | memory
	Idle     int    // seconds
	Abs      bool   // AbsoluteTimeout 1h configured
	Conn     bool   `json:",omitempty"` // all requests arrive on one keep-alive connection (one server-side RequestCtx)
	ViaField bool   `json:",omitempty"` // middleware API: Destroy is called on the exported Session field instead of on the middleware object
	Inner    bool   `json:",omitempty"` // store API only: used in a middleware in front of an unrelated session middleware
	Ops      []ReqOp
}

type rec struct {
	data map[string]string
	exp  uint32
}

var clockMu sync.Mutex

const sessName = "sid"

func check(c Case) vk.Verdict {
	clockMu.Lock()
	defer clockMu.Unlock()
	vk.SetNow(3_000_000)
	ctr := 0
	issued := map[string]bool{}
	cfg := session.Config{IdleTimeout: time.Duration(c.Idle) * time.Second, KeyLookup: c.Source + ":" + sessName,
		KeyGenerator: func() string {
			ctr++
			id := fmt.Sprintf("srv-%d", ctr)
			issued[id] = true
			return id
		}}
	if c.Abs {
		cfg.AbsoluteTimeout = time.Hour
	}
	var st *vk.Storage
	if c.Storage != "memory" {
		st = vk.NewStorage()
		st.Retain = c.Storage == "vk-retain"
		cfg.Storage = st
	}
	var script []Step
	var doSave bool
	var seenID, afterID string
	var stepIDs []string       // session id after each script step
	regenHit := map[int]bool{} // script steps whose "regenfault" met a Delete (which the storage refused)
	var seenData map[string]string
	var destroyed bool
	var handlerErr string
	keys := []string{"a", "b", "c"}
	app := fiber.New()
	var store *session.Store
	runScript := func(sess *session.Session) {
		seenID = sess.ID()
		seenData = map[string]string{}
		for _, k := range keys {
			if v, ok := sess.Get(k).(string); ok {
				seenData[k] = v
			}
		}
		destroyed = false
		stepIDs = stepIDs[:0]
		for k := range regenHit {
			delete(regenHit, k)
		}
		for sj, s := range script {
			switch s.Op {
			case "set":
				sess.Set(s.K, s.V)
			case "del":
				sess.Delete(s.K)
			case "regen":
				if err := sess.Regenerate(); err != nil {
					handlerErr = err.Error()
				}
			case "regenfault":
				// Regenerate while the storage refuses the Delete of the old record
				regenFaultHit := false
				if st != nil {
					_, _, d0 := st.Counts()
					st.FailNextDelete()
					err := sess.Regenerate()
					_, _, d1 := st.Counts()
					st.FailDelete = nil // (not consumed: a session without a record has nothing to delete)
					regenFaultHit = d1 > d0
					regenHit[sj] = regenFaultHit
					if regenFaultHit && err == nil {
						handlerErr = "Regenerate() succeeded although the storage refused the Delete of the old record"
					} else if !regenFaultHit && err != nil {
						handlerErr = err.Error()
					}
				} else if err := sess.Regenerate(); err != nil {
					handlerErr = err.Error()
				}
			case "reset":
				if err := sess.Reset(); err != nil {
					handlerErr = err.Error()
				}
			case "idle":
				sess.SetIdleTimeout(time.Duration(s.N) * time.Second)
			case "save":
				// explicit Save in the middle of the script (a no-op for the middleware's own session)
				if err := sess.Save(); err != nil {
					handlerErr = err.Error()
				}
			}
			stepIDs = append(stepIDs, sess.ID())
		}
		afterID = sess.ID()
	}
	if c.API == "middleware" {
		var mw fiber.Handler
		mw, store = session.NewWithStore(cfg)
		app.Use(mw)
		app.Get("/", func(ctx fiber.Ctx) error {
			m := session.FromContext(ctx)
			if m == nil {
				handlerErr = "no session in context"
				return nil
			}
			runScript(m.Session)
			for _, s := range script {
				if s.Op == "destroy" {
					var err error
					if c.ViaField {
						err = m.Session.Destroy() // the session object the middleware exports, destroyed by its own method
					} else {
						err = m.Destroy()
					}
					if err != nil {
						handlerErr = err.Error()
					}
					destroyed = true
				}
			}
			return nil
		})
	} else {
		store = session.NewStore(cfg)
		storeHandler := func(ctx fiber.Ctx) error {
			sess, err := store.Get(ctx)
			if err != nil {
				handlerErr = err.Error()
				return nil
			}
			defer sess.Release()
			if c.Inner {
				// the rest of the chain - an unrelated session middleware and its handler - runs first
				if err := ctx.Next(); err != nil {
					handlerErr = err.Error()
				}
			}
			runScript(sess)
			for _, s := range script {
				if s.Op == "destroy" {
					if err := sess.Destroy(); err != nil {
						handlerErr = err.Error()
					}
					destroyed = true
				}
			}
			if doSave && !destroyed {
				if err := sess.Save(); err != nil {
					handlerErr = err.Error()
				}
			}
			return nil
		}
		if c.Inner {
			// the store API in an outer middleware, in front of a session middleware with another store, another
			// cookie and its own storage: the two must not influence each other
			app.Use(storeHandler)
			app.Use(session.New(session.Config{KeyLookup: "cookie:inner_session"}))
			app.Get("/", func(ctx fiber.Ctx) error {
				if m := session.FromContext(ctx); m != nil {
					m.Set("inner", "x")
				}
				return nil
			})
		} else {
			app.Get("/", storeHandler)
		}
	}
	var ka *vk.KeepAlive
	if c.Conn {
		ka = vk.NewKeepAlive(app)
		defer ka.Close()
	}
	model := map[string]*rec{}
	cred := map[int]string{}
	var stale []string
	markStale := func(id string) {
		if id != "" {
			stale = append(stale, id)
		}
	}
	now := func() uint32 { return vk.Now() }
	live := func(id string) *rec {
		r := model[id]
		if r == nil || (r.exp != 0 && now() >= r.exp) {
			return nil
		}
		return r
	}
	v := vk.Verdict{Classes: []string{"api:" + c.API, "source:" + c.Source, "storage:" + c.Storage, fmt.Sprintf("keepalive:%v", c.Conn)}}
	staleUsed, forgedUsed, midSaveThenRotate := false, false, false
	for i, op := range c.Ops {
		switch op.Kind {
		case "adv":
			vk.Advance(uint32(op.Dt))
			continue
		case "getfault":
			// The storage fails the lookup of a request that presents the id of a live session. Whatever that request is
			// told (an error, a 5xx), it is not given another session: no other id is issued to it, and the session is
			// there, unchanged, for the next request.
			id := cred[op.Client]
			if st == nil || id == "" || live(id) == nil {
				continue
			}
			st.FailNextGet()
			script, doSave = nil, true
			ctrBefore := ctr
			var resp *fasthttp.RequestCtx
			func() {
				defer func() { _ = recover() }() // (the session middleware panics when the store reports an error)
				switch c.Source {
				case "cookie":
					resp = vk.Do(app, "GET", "/", "Cookie", sessName+"="+id)
				case "header":
					resp = vk.Do(app, "GET", "/", sessName, id)
				default:
					resp = vk.Do(app, "GET", "/?"+sessName+"="+id)
				}
			}()
			handlerErr = ""
			if ctr != ctrBefore {
				return vk.Failf("op %d: the storage failed the lookup for client %d presenting its live session %q: the request was given a newly generated session id instead of an error", i, op.Client, id)
			}
			if resp != nil {
				if sc := string(resp.Response.Header.Peek("Set-Cookie")) + string(resp.Response.Header.Peek(sessName)); strings.Contains(sc, "srv-") && !strings.Contains(sc, id) {
					return vk.Failf("op %d: the storage failed the lookup for client %d presenting its live session %q: the response hands out another id (%q)", i, op.Client, id, sc)
				}
			}
			v.Classes = append(v.Classes, "storage-lookup-fault")
			continue
		case "damaged":
			// The storage holds a record that cannot be decoded to the end (bytes in front of a copy of somebody's record),
			// under a key of its own, and a request presents that key. Whatever that request gets - an error, a fresh
			// session - is its own affair; nothing of it may surface in anybody else's session afterwards.
			id := cred[op.Client]
			if st == nil || id == "" || live(id) == nil {
				continue
			}
			raw, _ := st.Get(id)
			if len(raw) == 0 {
				continue
			}
			key := fmt.Sprintf("dmg-%d", i)
			if dmg := append([]byte{0x01, 0x00}, raw...); op.Pick == 0 {
				_ = st.Set(key, dmg, 0)
			} else {
				// ... or a copy of somebody's record that ends early (a short read, a partial write): its leading
				// entries decode before the failure shows
				_ = st.Set(key, append([]byte(nil), raw[:len(raw)-min(op.Pick, len(raw)-1)]...), 0)
			}
			script, doSave = nil, false
			func() {
				defer func() { _ = recover() }() // (the session middleware panics on a record it cannot decode)
				switch c.Source {
				case "cookie":
					vk.Do(app, "GET", "/", "Cookie", sessName+"="+key)
				case "header":
					vk.Do(app, "GET", "/", sessName, key)
				default:
					vk.Do(app, "GET", "/?"+sessName+"="+key)
				}
			}()
			handlerErr = ""
			_ = st.Delete(key)
			v.Classes = append(v.Classes, "damaged-record-presented")
			continue
		case "getbyid", "delete":
			id := cred[op.Client]
			if op.Present == "stale" && len(stale) > 0 {
				id = stale[op.Pick%len(stale)]
			} else if op.Present == "forged" {
				id = fmt.Sprintf("fgd-%d", i)
			}
			if id == "" {
				continue
			}
			if op.Kind == "delete" {
				if err := store.Delete(id); err != nil {
					return vk.Failf("op %d: store.Delete(%q): %v", i, id, err)
				}
				if model[id] != nil {
					delete(model, id)
					markStale(id)
				}
				continue
			}
			sess, err := store.GetByID(id)
			r := live(id)
			if r == nil {
				if err == nil {
					got := map[string]string{}
					for _, k := range keys {
						if x, ok := sess.Get(k).(string); ok {
							got[k] = x
						}
					}
					sess.Release()
					return vk.Failf("op %d: store.GetByID(%q) returned a session (data %v) although that id is not a live session", i, id, got)
				}
				if !errors.Is(err, session.ErrSessionIDNotFoundInStore) {
					return vk.Failf("op %d: store.GetByID(%q): unexpected error %v", i, id, err)
				}
				continue
			}
			if err != nil {
				return vk.Failf("op %d: store.GetByID(%q) failed (%v) although the session is live with data %v", i, id, err, r.data)
			}
			got := map[string]string{}
			for _, k := range keys {
				if x, ok := sess.Get(k).(string); ok {
					got[k] = x
				}
			}
			if fmt.Sprint(got) != fmt.Sprint(r.data) {
				sess.Release()
				return vk.Failf("op %d: store.GetByID(%q) sees %v, last saved %v", i, id, got, r.data)
			}
			if op.Save {
				// a background job touches the session and saves it: the idle timeout starts again, like any other save
				val := fmt.Sprintf("job%d", i)
				sess.Set("c", val)
				if err := sess.Save(); err != nil {
					sess.Release()
					return vk.Failf("op %d: Save() after store.GetByID(%q): %v", i, id, err)
				}
				nd := map[string]string{}
				for k, x := range r.data {
					nd[k] = x
				}
				nd["c"] = val
				model[id] = &rec{data: nd, exp: now() + uint32(c.Idle)}
			}
			sess.Release()
			continue
		}
		// ---- a request
		present := ""
		switch op.Present {
		case "own":
			present = cred[op.Client]
		case "forged":
			present = fmt.Sprintf("fgd-%d", i)
			forgedUsed = true
		case "stale":
			if len(stale) > 0 {
				present = stale[op.Pick%len(stale)]
				staleUsed = true
			}
		case "other":
			present = cred[(op.Client+1+op.Pick)%3]
		}
		script, doSave = op.Script, op.Save
		handlerErr = ""
		var hdr []string
		uri := "/"
		if present != "" {
			switch c.Source {
			case "cookie":
				hdr = []string{"Cookie", sessName + "=" + present}
			case "header":
				hdr = []string{sessName, present}
			case "query":
				uri = "/?" + sessName + "=" + present
			}
		}
		ctrBefore := ctr
		var resp *fasthttp.Response
		if ka != nil {
			var hs [][2]string
			for j := 0; j+1 < len(hdr); j += 2 {
				hs = append(hs, [2]string{hdr[j], hdr[j+1]})
			}
			r, err := ka.Do(vk.Req("GET", uri, hs, nil), false)
			if err != nil {
				return vk.Failf("op %d: keep-alive connection: %v", i, err)
			}
			resp = r
		} else {
			resp = &vk.Do(app, "GET", uri, hdr...).Response
		}
		ctx := fmt.Sprintf("op %d (client %d presents %q via %s, script %+v, save=%v, api=%s, storage=%s, t=+%ds)", i, op.Client, present, c.Source, op.Script, op.Save, c.API, c.Storage, now()-3_000_000)
		if handlerErr != "" {
			return vk.Failf("%s: %s", ctx, handlerErr)
		}
		if resp.StatusCode() != 200 {
			return vk.Failf("%s: status %d", ctx, resp.StatusCode())
		}
		r := live(present)
		if present != "" && model[present] != nil && r == nil {
			// expired: becomes stale
			delete(model, present)
			markStale(present)
		}
		var cur map[string]string
		if r != nil {
			if seenID != present {
				return vk.Failf("%s: the presented session is live but the handler got session id %q", ctx, seenID)
			}
			if fmt.Sprint(seenData) != fmt.Sprint(r.data) {
				return vk.Failf("%s: handler sees %v, last saved for this id: %v", ctx, seenData, r.data)
			}
			cur = map[string]string{}
			for k, x := range r.data {
				cur[k] = x
			}
		} else {
			if len(seenData) != 0 {
				return vk.Failf("%s: the presented id is not a live session but the handler sees data %v", ctx, seenData)
			}
			if !issued[seenID] || seenID == present {
				return vk.Failf("%s: the presented id is not a live session; the handler got session id %q, want a fresh server-generated one", ctx, seenID)
			}
			if ctr == ctrBefore {
				return vk.Failf("%s: no id was generated for the fresh session (%q)", ctx, seenID)
			}
			cur = map[string]string{}
		}
		curID := seenID
		idle := uint32(c.Idle)
		midSaved := false
		for j, s := range op.Script {
			switch s.Op {
			case "set":
				cur[s.K] = s.V
			case "del":
				delete(cur, s.K)
			case "regenfault":
				if regenHit[j] {
					// the call failed. Wherever it leaves the session - on its old id (nothing happened) or on a new one -
					// the session must not be reachable under both: if it moved on, the old record must be gone
					after := curID
					if j < len(stepIDs) {
						after = stepIDs[j]
					}
					if after == curID {
						break
					}
					if st != nil && st.Has(curID) {
						return vk.Failf("%s: step %d: Regenerate() failed (the storage refused the Delete), the session nevertheless moved from id %q to %q and the record of %q is still in the storage: the session exists twice", ctx, j, curID, after, curID)
					}
				}
				fallthrough
			case "regen", "reset":
				if model[curID] != nil {
					delete(model, curID)
					markStale(curID)
				}
				if s.Op == "reset" {
					cur = map[string]string{}
					idle = uint32(c.Idle)
				}
				if midSaved {
					midSaveThenRotate = true
				}
				prev := curID
				if j < len(stepIDs) {
					curID = stepIDs[j]
				} else {
					curID = ""
				}
				if !issued[curID] || curID == present || curID == prev || model[curID] != nil {
					return vk.Failf("%s: after step %d (%s) the session id is %q (was %q), want a new server-generated id", ctx, j, s.Op, curID, prev)
				}
			case "idle":
				idle = uint32(s.N)
			case "save":
				// an explicit Save() in the middle of the handler: persists the data under the current id
				// (the middleware's own session ignores it and saves once, after the handler)
				if c.API == "store" {
					snap := map[string]string{}
					for k, x := range cur {
						snap[k] = x
					}
					model[curID] = &rec{data: snap, exp: now() + idle}
					midSaved = true
				}
			case "destroy":
				if model[curID] != nil {
					delete(model, curID)
					markStale(curID)
				}
			}
		}
		if afterID != curID && !destroyed {
			return vk.Failf("%s: session id changed from %q to %q without regenerate/reset", ctx, curID, afterID)
		}
		saved := !destroyed && (c.API == "middleware" || op.Save)
		if saved {
			model[curID] = &rec{data: cur, exp: now() + idle}
			if c.API == "store" && r != nil && curID == present {
				// Save() on a non-fresh session keeps its remaining idle timeout semantics: the TTL is reset from now
			}
		}
		// emitted credential
		emitted := ""
		switch c.Source {
		case "header":
			emitted = string(resp.Header.Peek(sessName))
		default:
			ck := fasthttp.AcquireCookie()
			ck.SetKey(sessName)
			if resp.Header.Cookie(ck) {
				emitted = string(ck.Value())
				if ck.MaxAge() < 0 || (!ck.Expire().IsZero() && ck.Expire().Before(time.Now()) && !ck.Expire().Equal(fasthttp.CookieExpireUnlimited)) {
					emitted = "(expired)"
				}
			}
			fasthttp.ReleaseCookie(ck)
		}
		if saved {
			if emitted != curID {
				return vk.Failf("%s: the session was saved under id %q but the response carries %q", ctx, curID, emitted)
			}
			cred[op.Client] = curID
		} else if destroyed {
			if emitted != "" && emitted != "(expired)" && c.Source != "header" {
				return vk.Failf("%s: the session was destroyed but the response still sets the cookie to %q", ctx, emitted)
			}
			cred[op.Client] = ""
		} else if midSaved && emitted != "" && emitted != "(expired)" {
			cred[op.Client] = emitted // the client keeps whatever the response handed out
		}
		// storage agrees with the model for the ids this request touched (ghost state)
		if st != nil {
			for _, id := range append([]string{present, seenID, curID}, stepIDs...) {
				if id == "" {
					continue
				}
				if (live(id) != nil) != st.Has(id) {
					return vk.Failf("%s: storage has a record for %q: %v, model says live: %v (storage keys %v)", ctx, id, st.Has(id), live(id) != nil, st.Keys())
				}
			}
		}
	}
	v.NonTrivial = staleUsed || forgedUsed
	if midSaveThenRotate {
		v.Classes = append(v.Classes, "save-then-regenerate-or-reset")
	}
	if staleUsed {
		v.Classes = append(v.Classes, "stale-id-presented")
	}
	if forgedUsed {
		v.Classes = append(v.Classes, "forged-id-presented")
	}
	return v
}

func genCase(t *rapid.T) Case {
	c := Case{API: rapid.SampledFrom([]string{"middleware", "store"}).Draw(t, "api"), Source: rapid.SampledFrom([]string{"cookie", "header", "query"}).Draw(t, "source"),
		Storage: rapid.SampledFrom([]string{"vk", "vk-retain", "memory"}).Draw(t, "storage"), Idle: rapid.SampledFrom([]int{2, 5, 60}).Draw(t, "idle"), Abs: rapid.IntRange(0, 3).Draw(t, "abs") == 0, Conn: rapid.IntRange(0, 2).Draw(t, "conn") == 0}
	c.Inner = c.API == "store" && rapid.IntRange(0, 2).Draw(t, "inner") == 0
	c.ViaField = c.API == "middleware" && rapid.IntRange(0, 2).Draw(t, "viafield") == 0
	n := rapid.IntRange(1, 25).Draw(t, "nops")
	for i := 0; i < n; i++ {
		switch k := rapid.IntRange(0, 11).Draw(t, "kind"); {
		case k <= 1:
			c.Ops = append(c.Ops, ReqOp{Kind: "adv", Dt: rapid.SampledFrom([]int{1, 1, 2, 3, 6, 61}).Draw(t, "dt")})
		case k == 2:
			c.Ops = append(c.Ops, ReqOp{Kind: "getbyid", Client: rapid.IntRange(0, 2).Draw(t, "client"), Present: rapid.SampledFrom([]string{"own", "own", "stale", "forged"}).Draw(t, "which"), Pick: rapid.IntRange(0, 5).Draw(t, "pick"),
				Save: rapid.IntRange(0, 2).Draw(t, "gsave") == 0})
		case k == 3 && rapid.Bool().Draw(t, "dmg"):
			c.Ops = append(c.Ops, ReqOp{Kind: rapid.SampledFrom([]string{"damaged", "damaged", "getfault"}).Draw(t, "faultkind"), Client: rapid.IntRange(0, 2).Draw(t, "client"), Pick: rapid.SampledFrom([]int{0, 1, 2, 3, 5, 9}).Draw(t, "cut")})
		case k == 3:
			c.Ops = append(c.Ops, ReqOp{Kind: "delete", Client: rapid.IntRange(0, 2).Draw(t, "client"), Present: "own"})
		default:
			op := ReqOp{Kind: "req", Client: rapid.IntRange(0, 2).Draw(t, "client"),
				Present: rapid.SampledFrom([]string{"own", "own", "own", "own", "none", "forged", "stale", "stale", "other"}).Draw(t, "present"), Pick: rapid.IntRange(0, 5).Draw(t, "pick"),
				Save: rapid.IntRange(0, 3).Draw(t, "save") != 0}
			ns := rapid.IntRange(0, 3).Draw(t, "ns")
			for j := 0; j < ns; j++ {
				s := Step{Op: rapid.SampledFrom([]string{"set", "set", "set", "del", "regen", "regenfault", "reset", "destroy", "idle", "save", "save"}).Draw(t, "op"),
					K: rapid.SampledFrom([]string{"a", "b", "c"}).Draw(t, "k"), V: fmt.Sprintf("v%d_%d", i, j), N: rapid.SampledFrom([]int{1, 3, 30}).Draw(t, "idleN")}
				op.Script = append(op.Script, s)
				if s.Op == "destroy" {
					break // operations after Destroy in the same request have no meaning in the statement
				}
			}
			c.Ops = append(c.Ops, op)
		}
	}
	return c
}

var propSession = vk.Register(&vk.Prop[Case]{Property: property, Name: "model", Gen: genCase, Check: check, Quick: 20000, Thorough: 60000})

func TestModel(t *testing.T) { propSession.Run(t) }

var _ = sort.Strings
var _ = strings.TrimSpace

// ---- absolute timeout (wall clock) ----------------------------------------------------------------------------
//
// AbsoluteTimeout is measured with time.Now(), which the virtual clock does not reach, so these few cases run in real
// time: requests are sent on a grid of 300 ms, the absolute timeout is 750 ms, so every request is 150 ms away from any
// deadline. A case whose requests drift more than 100 ms from the grid (busy machine) is skipped, never failed.

type AbsStep struct {
	Wait int      // grid units to wait before the request (1 or 2)
	Ops  []string // in the handler: set | reget (store API: Save, Release, Get again) | reset | regen
}

type AbsCase struct {
	API   string // middleware | store
	Steps []AbsStep
}

const absUnit, absTimeout = 300 * time.Millisecond, 750 * time.Millisecond

func checkAbs(c AbsCase) vk.Verdict {
	ctr := 0
	issued := map[string]bool{}
	// the idle timeout must not exceed the absolute one; the storage counts it on the (frozen) virtual clock, so only the
	// absolute timeout ever ends a session here
	clockMu.Lock()
	defer clockMu.Unlock()
	vk.SetNow(4_000_000)
	absStore := vk.NewStorage()
	cfg := session.Config{IdleTimeout: 500 * time.Millisecond, AbsoluteTimeout: absTimeout, Storage: absStore, KeyGenerator: func() string {
		ctr++
		id := fmt.Sprintf("abs-%d", ctr)
		issued[id] = true
		return id
	}}
	var ops []string
	var step int
	var seenID, endID, seenA, herr string
	allowReget := false
	run := func(ctx fiber.Ctx, sess *session.Session, store *session.Store) *session.Session {
		seenID = sess.ID()
		seenA, _ = sess.Get("a").(string)
		for j, op := range ops {
			switch op {
			case "set":
				sess.Set("a", fmt.Sprintf("v%d_%d", step, j))
			case "resetfault":
				// Reset while the storage refuses the Delete: the call fails; whatever it leaves behind is still a session
				// with the absolute deadline it had
				absStore.FailNextDelete()
				if err := sess.Reset(); err == nil {
					herr = "Reset() succeeded although the storage refused the Delete"
				}
			case "destroyfault":
				// Destroy of a live session while the storage refuses the Delete (the last thing the handler does): the
				// call fails; what stays behind under the id is still a session with the absolute deadline it had
				if allowReget {
					absStore.FailNextDelete()
					if err := sess.Destroy(); err == nil {
						herr = "Destroy() succeeded although the storage refused the Delete"
					}
				}
			case "clear":
				// "empty the session": delete every key the session reports
				for _, k := range sess.Keys() {
					sess.Delete(k)
				}
			case "reset":
				if err := sess.Reset(); err != nil {
					herr = err.Error()
				}
			case "regen":
				if err := sess.Regenerate(); err != nil {
					herr = err.Error()
				}
			case "reget":
				// only as the first thing a handler does with a live session: then the second Get must find the very same
				// stored session again (what a second Get means after an expiry, Reset or Regenerate in the same request
				// is not determined by the statement)
				if store != nil && j == 0 && allowReget {
					if err := sess.Save(); err != nil {
						herr = err.Error()
					}
					sess.Release()
					s2, err := store.Get(ctx)
					if err != nil {
						herr = err.Error()
						return nil
					}
					sess = s2
				}
			}
		}
		endID = sess.ID()
		return sess
	}
	app := fiber.New()
	if c.API == "middleware" {
		app.Use(session.New(cfg))
		app.Get("/", func(ctx fiber.Ctx) error {
			m := session.FromContext(ctx)
			run(ctx, m.Session, nil)
			return nil
		})
	} else {
		store := session.NewStore(cfg)
		app.Get("/", func(ctx fiber.Ctx) error {
			sess, err := store.Get(ctx)
			if err != nil {
				herr = err.Error()
				return nil
			}
			if sess = run(ctx, sess, store); sess != nil {
				if err := sess.Save(); err != nil {
					herr = err.Error()
				}
				sess.Release()
			}
			return nil
		})
	}
	type msess struct {
		a        string
		deadline time.Duration // on the planned time axis
	}
	model := map[string]*msess{}
	cred := ""
	start := time.Now()
	planned := time.Duration(0)
	sawExpiry, sawResetThenExpiry := false, false
	resetAt := map[string]bool{}
	for i, st := range c.Steps {
		planned += time.Duration(st.Wait) * absUnit
		if d := time.Until(start.Add(planned)); d > 0 {
			time.Sleep(d)
		}
		if drift := time.Since(start) - planned; drift > 100*time.Millisecond || drift < -100*time.Millisecond {
			return vk.Verdict{Skip: true}
		}
		ops, step, herr = st.Ops, i, ""
		allowReget = model[cred] != nil && planned < model[cred].deadline
		var hdr []string
		if cred != "" {
			hdr = []string{"Cookie", "session_id=" + cred}
		}
		resp := vk.Do(app, "GET", "/", hdr...)
		if drift := time.Since(start) - planned; drift > 100*time.Millisecond {
			return vk.Verdict{Skip: true}
		}
		ctx := fmt.Sprintf("step %d at +%v (api=%s, client presents %q, handler ops %v; absolute timeout %v)", i, planned, c.API, cred, st.Ops, absTimeout)
		if herr != "" || resp.Response.StatusCode() != 200 {
			return vk.Failf("%s: status %d %s", ctx, resp.Response.StatusCode(), herr)
		}
		m := model[cred]
		if m != nil && planned > m.deadline {
			sawExpiry = true
			if resetAt[cred] {
				sawResetThenExpiry = true
			}
			delete(model, cred)
			m = nil
		}
		if m != nil {
			if seenID != cred || (seenA != m.a && m.a != "?") {
				return vk.Failf("%s: the session is %v short of its absolute deadline, the handler got id %q with a=%q, want id %q with a=%q", ctx, m.deadline-planned, seenID, seenA, cred, m.a)
			}
		} else {
			if seenA != "" || !issued[seenID] || seenID == cred {
				why := "the presented id is unknown"
				if cred != "" {
					why = "the absolute timeout of the presented session has passed"
				}
				return vk.Failf("%s: %s, the handler got id %q with a=%q, want a fresh server-generated session without data", ctx, why, seenID, seenA)
			}
			m = &msess{deadline: planned + absTimeout}
		}
		cur := seenID
		for j, op := range st.Ops {
			switch op {
			case "destroyfault":
				if allowReget {
					m.a = "?" // a failed Destroy: which data survives is not determined; same session, same deadline
				}
			case "set":
				m.a = fmt.Sprintf("v%d_%d", i, j)
			case "resetfault":
				m.a = "?" // what is left of the data is not determined (a set follows at once); same session, same deadline
			case "clear":
				m.a = "" // the data is gone; it is still the same session with the same deadline
			case "reset":
				// a reset session is a new session: new id, no data, a deadline of its own
				delete(model, cur)
				m = &msess{deadline: planned + absTimeout}
				cur = ""
				resetAt["next"] = true
			case "regen":
				delete(model, cur) // same session under a new id: data and deadline stay
				cur = ""
			}
		}
		if cur == "" {
			cur = endID
			if !issued[cur] || cur == seenID {
				return vk.Failf("%s: after reset/regenerate the session id is %q (was %q)", ctx, cur, seenID)
			}
		} else if endID != cur {
			return vk.Failf("%s: session id changed from %q to %q without reset/regenerate", ctx, cur, endID)
		}
		if resetAt["next"] {
			delete(resetAt, "next")
			resetAt[cur] = true
		}
		delete(model, seenID)
		model[cur] = m
		ck := fasthttp.AcquireCookie()
		ck.SetKey("session_id")
		if resp.Response.Header.Cookie(ck) && len(ck.Value()) > 0 {
			cred = string(ck.Value())
		}
		fasthttp.ReleaseCookie(ck)
		if cred != cur {
			return vk.Failf("%s: the session was saved under id %q but the client now holds %q", ctx, cur, cred)
		}
	}
	v := vk.Verdict{NonTrivial: sawExpiry, Classes: []string{"abs-api:" + c.API}}
	if sawExpiry {
		v.Classes = append(v.Classes, "absolute-deadline-passed")
	}
	if sawResetThenExpiry {
		v.Classes = append(v.Classes, "deadline-of-a-reset-session-passed")
	}
	return v
}

var propAbs = vk.Register(&vk.Prop[AbsCase]{Property: property, Name: "absolute", Check: checkAbs, Quick: 10, Thorough: 30,
	Gen: func(t *rapid.T) AbsCase {
		c := AbsCase{API: rapid.SampledFrom([]string{"middleware", "store"}).Draw(t, "api")}
		n := rapid.IntRange(4, 6).Draw(t, "n")
		for i := 0; i < n; i++ {
			st := AbsStep{Wait: rapid.SampledFrom([]int{1, 1, 2}).Draw(t, "wait")}
			k := rapid.IntRange(0, 2).Draw(t, "nops")
			for j := 0; j < k; j++ {
				pool := []string{"set", "set", "reset", "regen", "clear"}
				if j == 0 {
					pool = []string{"set", "reget", "reget", "reset", "regen", "clear"} // reget only counts as the first operation
				}
				op := rapid.SampledFrom(pool).Draw(t, "op")
				if op == "set" && rapid.IntRange(0, 5).Draw(t, "resetfault") == 0 {
					st.Ops = append(st.Ops, "resetfault") // a failing Reset, then the data is set again
				}
				st.Ops = append(st.Ops, op)
			}
			plain := true
			for _, op := range st.Ops {
				plain = plain && (op == "set" || op == "clear")
			}
			if c.API == "middleware" && plain && rapid.IntRange(0, 1).Draw(t, "destroyfault") == 0 {
				st.Ops = append(st.Ops, "destroyfault")
			}
			c.Steps = append(c.Steps, st)
		}
		return c
	}})

func TestAbsolute(t *testing.T) {
	_ = flag.Set("rapid.shrinktime", "1ns") // cases run in real time and are small: no minimisation
	defer func() { _ = flag.Set("rapid.shrinktime", "30s") }()
	propAbs.Run(t)
}

// ---- the store API on a session whose absolute deadline passed, and two sessions held at the same time ------------

// ByIDCase: a client creates a session; Wait grid units later a background job looks it up with Store.GetByID (the
// storage record is still there: only the absolute timeout can have ended the session), optionally while the storage
// refuses the Delete; directly afterwards two other clients are served at the same time (the second one's request runs
// while the first one's handler holds its session), each writing its own data.
type ByIDCase struct {
	API   string // middleware | store
	Wait  int    // grid units between creation and the lookup
	Fault bool   // the storage fails the first Delete of the lookup
	Twice bool   // the lookup is done twice
}

func checkByID(c ByIDCase) vk.Verdict {
	ctr := 0
	issued := map[string]bool{}
	clockMu.Lock()
	defer clockMu.Unlock()
	vk.SetNow(4_000_000)
	st := vk.NewStorage()
	cfg := session.Config{IdleTimeout: 500 * time.Millisecond, AbsoluteTimeout: absTimeout, Storage: st, KeyGenerator: func() string {
		ctr++
		id := fmt.Sprintf("byid-%d", ctr)
		issued[id] = true
		return id
	}}
	app := fiber.New()
	var store *session.Store
	var herr string
	// with(ctx, f): run f on the request's session and persist it
	var with func(ctx fiber.Ctx, f func(*session.Session))
	if c.API == "middleware" {
		var h fiber.Handler
		h, store = session.NewWithStore(cfg)
		app.Use(h)
		with = func(ctx fiber.Ctx, f func(*session.Session)) { f(session.FromContext(ctx).Session) }
	} else {
		store = session.NewStore(cfg)
		with = func(ctx fiber.Ctx, f func(*session.Session)) {
			sess, err := store.Get(ctx)
			if err != nil {
				herr = err.Error()
				return
			}
			f(sess)
			if err := sess.Save(); err != nil {
				herr = err.Error()
			}
			sess.Release()
		}
	}
	seen := map[string][2]string{} // route -> id, value of "a" the handler found
	app.Get("/set/:v", func(ctx fiber.Ctx) error {
		with(ctx, func(s *session.Session) {
			a, _ := s.Get("a").(string)
			seen["set"] = [2]string{s.ID(), a}
			s.Set("a", ctx.Params("v"))
		})
		return nil
	})
	app.Get("/read", func(ctx fiber.Ctx) error {
		with(ctx, func(s *session.Session) {
			a, _ := s.Get("a").(string)
			seen["read"] = [2]string{s.ID(), a}
		})
		return nil
	})
	var innerCookie string
	app.Get("/outer", func(ctx fiber.Ctx) error {
		with(ctx, func(s *session.Session) {
			idBefore := s.ID()
			// another client is served while this handler holds its session
			r := vk.Do(app, "GET", "/inner")
			ck := fasthttp.AcquireCookie()
			ck.SetKey("session_id")
			if r.Response.Header.Cookie(ck) {
				innerCookie = string(ck.Value())
			}
			fasthttp.ReleaseCookie(ck)
			a, _ := s.Get("a").(string)
			seen["outer"] = [2]string{idBefore, a}
			if s.ID() != idBefore {
				seen["outer"] = [2]string{idBefore + " then " + s.ID(), a}
			}
			s.Set("a", "outer-data")
		})
		return nil
	})
	app.Get("/inner", func(ctx fiber.Ctx) error {
		with(ctx, func(s *session.Session) {
			a, _ := s.Get("a").(string)
			seen["inner"] = [2]string{s.ID(), a}
			s.Set("a", "inner-data")
		})
		return nil
	})
	cookieOf := func(r *fasthttp.RequestCtx) string {
		ck := fasthttp.AcquireCookie()
		defer fasthttp.ReleaseCookie(ck)
		ck.SetKey("session_id")
		if r.Response.Header.Cookie(ck) {
			return string(ck.Value())
		}
		return ""
	}
	start := time.Now()
	r0 := vk.Do(app, "GET", "/set/v0")
	cred := cookieOf(r0)
	if herr != "" || !issued[cred] || seen["set"] != [2]string{cred, ""} {
		return vk.Failf("creating a session: handler saw %v, cookie %q, error %q", seen["set"], cred, herr)
	}
	planned := time.Duration(c.Wait) * absUnit
	if d := time.Until(start.Add(planned)); d > 0 {
		time.Sleep(d)
	}
	if drift := time.Since(start) - planned; drift > 100*time.Millisecond {
		return vk.Verdict{Skip: true}
	}
	expired := planned > absTimeout
	lookups := 1
	if c.Twice {
		lookups = 2
	}
	for k := 0; k < lookups; k++ {
		if c.Fault && k == 0 {
			st.FailNextDelete()
		}
		sess, err := store.GetByID(cred)
		ctx := fmt.Sprintf("Store.GetByID(%q) #%d, %v after the session was created (absolute timeout %v, storage record present, delete fault %v)", cred, k+1, planned, absTimeout, c.Fault && k == 0)
		if expired {
			if err == nil {
				a, _ := sess.Get("a").(string)
				return vk.Failf("%s: returned a session (id %q, a=%q) although the absolute timeout has passed", ctx, sess.ID(), a)
			}
		} else {
			if err != nil {
				return vk.Failf("%s: %v, want the live session", ctx, err)
			}
			if a, _ := sess.Get("a").(string); sess.ID() != cred || a != "v0" {
				return vk.Failf("%s: session id %q with a=%q, want id %q with a=\"v0\"", ctx, sess.ID(), a, cred)
			}
			sess.Release()
		}
	}
	if drift := time.Since(start) - planned; drift > 100*time.Millisecond {
		return vk.Verdict{Skip: true}
	}
	// two clients at the same time
	rOuter := vk.Do(app, "GET", "/outer")
	outerCookie := cookieOf(rOuter)
	ctx := fmt.Sprintf("two new clients served at the same time after the lookup (api=%s, wait %v, fault %v)", c.API, planned, c.Fault)
	if herr != "" {
		return vk.Failf("%s: %s", ctx, herr)
	}
	if seen["outer"][1] != "" || seen["inner"][1] != "" || !issued[seen["outer"][0]] || !issued[seen["inner"][0]] || seen["outer"][0] == seen["inner"][0] {
		return vk.Failf("%s: the outer handler had session %v, the inner one %v; want two different fresh server-generated sessions without data", ctx, seen["outer"], seen["inner"])
	}
	if outerCookie != seen["outer"][0] || innerCookie != seen["inner"][0] {
		return vk.Failf("%s: handlers had sessions %q and %q, the clients were given %q and %q", ctx, seen["outer"][0], seen["inner"][0], outerCookie, innerCookie)
	}
	for _, probe := range [][2]string{{outerCookie, "outer-data"}, {innerCookie, "inner-data"}} {
		vk.Do(app, "GET", "/read", "Cookie", "session_id="+probe[0])
		if herr != "" || seen["read"] != probe {
			return vk.Failf("%s: the client holding %q now sees %v %s, want a=%q", ctx, probe[0], seen["read"], herr, probe[1])
		}
	}
	if time.Since(start) < absTimeout-100*time.Millisecond && !expired {
		vk.Do(app, "GET", "/read", "Cookie", "session_id="+cred)
		if herr != "" || seen["read"] != [2]string{cred, "v0"} {
			return vk.Failf("%s: the first client (live session %q) sees %v %s, want a=\"v0\"", ctx, cred, seen["read"], herr)
		}
	}
	v := vk.Verdict{NonTrivial: expired, Classes: []string{"byid-api:" + c.API}}
	if expired {
		v.Classes = append(v.Classes, "lookup-after-absolute-deadline")
		if c.Fault {
			v.Classes = append(v.Classes, "lookup-after-absolute-deadline-with-delete-fault")
		}
	}
	return v
}

var propByID = vk.Register(&vk.Prop[ByIDCase]{Property: property, Name: "byid", Check: checkByID, Quick: 10, Thorough: 40,
	Gen: func(t *rapid.T) ByIDCase {
		return ByIDCase{API: rapid.SampledFrom([]string{"middleware", "store"}).Draw(t, "api"), Wait: rapid.SampledFrom([]int{1, 2, 3, 3, 4}).Draw(t, "wait"),
			Fault: rapid.Bool().Draw(t, "fault"), Twice: rapid.IntRange(0, 3).Draw(t, "twice") == 0}
	}})

func TestByID(t *testing.T) {
	_ = flag.Set("rapid.shrinktime", "1ns")
	defer func() { _ = flag.Set("rapid.shrinktime", "30s") }()
	propByID.Run(t)
}
