package c10

import (
	"fmt"
	"net"
	"net/netip"
	"strings"
	"testing"

	"github.com/gofiber/fiber/v3"
	"pgregory.net/rapid"

	"verifharness/vk"
)

const property = "C10"

func TestMain(m *testing.M) { vk.Main(m, property) }

func TestAAACorpus(t *testing.T)    { vk.TestCorpus(t, property) }
func TestAAAWitnesses(t *testing.T) { vk.TestWitnesses(t, property) }
func TestReplay(t *testing.T)       { vk.TestReplay(t) }

type Case struct {
	Proxies                      []string
	Loopback, Private, LinkLocal bool
	ProxyHeader                  string
	Validate                     bool
	Peer                         string
	Host                         string
	Headers                      [][2]string // forwarding headers, in order
	TLS                          bool        `json:",omitempty"` // the request arrived on a TLS connection
	DerivedFrom                  []string    `json:",omitempty"` // the app's Config is a modified copy of another app's Config() that trusts these proxies
}

// newApp builds the app under test; with derivedFrom it starts from the Config() of another live app (the way sub-apps
// and test fixtures are commonly configured) and replaces the proxy settings - the other app's trust must not leak in.
func newApp(derivedFrom []string, header string, validate bool, tp fiber.TrustProxyConfig) *fiber.App {
	cfg := fiber.Config{}
	if derivedFrom != nil {
		other := fiber.New(fiber.Config{TrustProxy: true, TrustProxyConfig: fiber.TrustProxyConfig{Proxies: derivedFrom}})
		cfg = other.Config()
	}
	cfg.TrustProxy, cfg.ProxyHeader, cfg.EnableIPValidation = true, header, validate
	// field by field, as a caller adjusting a copied Config does (the copy keeps whatever the struct carries besides them)
	cfg.TrustProxyConfig.Proxies = tp.Proxies
	cfg.TrustProxyConfig.Loopback, cfg.TrustProxyConfig.Private, cfg.TrustProxyConfig.LinkLocal = tp.Loopback, tp.Private, tp.LinkLocal
	return fiber.New(cfg)
}

type obsT struct {
	IP, Host, Hostname, Scheme, Base string
	Secure                           bool
	Sub                              string
}

func (o obsT) String() string {
	return fmt.Sprintf("ip=%q host=%q hostname=%q scheme=%q secure=%v base=%q sub=%s", o.IP, o.Host, o.Hostname, o.Scheme, o.Secure, o.Base, o.Sub)
}

func observe(c Case, withHeaders bool) (o obsT, panicked string) {
	app := newApp(c.DerivedFrom, c.ProxyHeader, c.Validate, fiber.TrustProxyConfig{Proxies: c.Proxies, Loopback: c.Loopback, Private: c.Private, LinkLocal: c.LinkLocal})
	app.Get("/", func(ctx fiber.Ctx) error {
		o = obsT{IP: strings.Clone(ctx.IP()), Host: strings.Clone(ctx.Host()), Hostname: strings.Clone(ctx.Hostname()), Scheme: strings.Clone(ctx.Scheme()),
			Secure: ctx.Secure(), Base: strings.Clone(ctx.BaseURL()), Sub: fmt.Sprintf("%q", ctx.Subdomains())}
		return nil
	})
	hdr := []string{"Host", c.Host}
	if c.Host == "" {
		hdr = nil // no Host header at all (an HTTP/1.0 client)
	}
	if withHeaders {
		for _, h := range c.Headers {
			hdr = append(hdr, h[0], h[1])
		}
	}
	defer func() {
		if r := recover(); r != nil {
			panicked = fmt.Sprint(r)
		}
	}()
	if c.TLS {
		vk.DoTLS(app, &net.TCPAddr{IP: net.ParseIP(c.Peer), Port: 4711}, "GET", "/", hdr...)
	} else {
		vk.DoAddr(app, &net.TCPAddr{IP: net.ParseIP(c.Peer), Port: 4711}, "GET", "/", nil, hdr...)
	}
	return o, ""
}

// trusted is the reference trust decision (net/netip).
func trusted(c Case) (bool, error) {
	pa, err := netip.ParseAddr(c.Peer)
	if err != nil {
		return false, err
	}
	pa = pa.Unmap()
	if (c.Loopback && pa.IsLoopback()) || (c.Private && pa.IsPrivate()) || (c.LinkLocal && pa.IsLinkLocalUnicast()) {
		return true, nil
	}
	for _, it := range c.Proxies {
		if strings.Contains(it, "/") {
			pf, err := netip.ParsePrefix(it)
			if err != nil {
				return false, err
			}
			if pf.Contains(pa) {
				return true, nil
			}
		} else {
			a, err := netip.ParseAddr(it)
			if err != nil {
				return false, err
			}
			if a.Unmap() == pa {
				return true, nil
			}
		}
	}
	return false, nil
}

func firstElem(v string) string {
	if i := strings.Index(v, ","); i != -1 {
		return v[:i]
	}
	return v
}

func isSchemeHeader(n string) bool {
	switch n {
	case "X-Forwarded-Proto", "X-Forwarded-Protocol", "X-Forwarded-Ssl", "X-Url-Scheme":
		return true
	}
	return false
}

func check(c Case) vk.Verdict {
	tr, err := trusted(c)
	if err != nil {
		return vk.Verdict{Skip: true}
	}
	with, p1 := observe(c, true)
	without, p2 := observe(c, false)
	ctx := fmt.Sprintf("peer %s, proxies %v lo=%v priv=%v ll=%v, ProxyHeader %q validate=%v, headers %q", c.Peer, c.Proxies, c.Loopback, c.Private, c.LinkLocal, c.ProxyHeader, c.Validate, c.Headers)
	if p1 != "" || p2 != "" {
		return vk.Failf("%s: panic %s%s", ctx, p1, p2)
	}
	if with.Secure != (with.Scheme == "https") {
		return vk.Failf("%s: Secure()=%v but Scheme()=%q", ctx, with.Secure, with.Scheme)
	}
	v := vk.Verdict{}
	if !tr {
		v.Classes = append(v.Classes, "untrusted")
		if with != without {
			return vk.Failf("%s: the peer is outside the proxy set but forwarding headers change the observation:\n with   : %s\n without: %s", ctx, with, without)
		}
		v.NonTrivial = len(c.Headers) > 0
	} else {
		v.Classes = append(v.Classes, "trusted")
		// documented forwarded values
		var xfh, ph string
		var schemeHdrs [][2]string
		hasPH := false
		for _, h := range c.Headers {
			switch {
			case h[0] == "X-Forwarded-Host" && xfh == "":
				xfh = h[1]
			case isSchemeHeader(h[0]):
				schemeHdrs = append(schemeHdrs, h)
			}
			if c.ProxyHeader != "" && strings.EqualFold(h[0], c.ProxyHeader) && !hasPH {
				ph, hasPH = h[1], true
			}
		}
		wantHost := c.Host
		if xfh != "" {
			wantHost = firstElem(xfh)
			v.NonTrivial = true
		}
		if with.Host != wantHost {
			return vk.Failf("%s: trusted peer: Host()=%q, want %q", ctx, with.Host, wantHost)
		}
		if len(schemeHdrs) == 1 {
			want := "http"
			h := schemeHdrs[0]
			switch h[0] {
			case "X-Forwarded-Proto", "X-Forwarded-Protocol":
				want = firstElem(h[1])
			case "X-Forwarded-Ssl":
				if h[1] == "on" {
					want = "https"
				}
			case "X-Url-Scheme":
				want = h[1]
			}
			if c.TLS {
				want = "https" // the connection itself is encrypted: no header makes it less so
			}
			want = strings.ToLower(want) // scheme names compare without regard to case; Secure() and callers compare with "https"
			if with.Scheme != want {
				return vk.Failf("%s: trusted peer: Scheme()=%q, want %q", ctx, with.Scheme, want)
			}
			v.NonTrivial = true
		}
		if c.ProxyHeader != "" && !c.Validate {
			if with.IP != ph {
				return vk.Failf("%s: trusted peer: IP()=%q, want the ProxyHeader value %q", ctx, with.IP, ph)
			}
			v.NonTrivial = v.NonTrivial || hasPH
		}
		if c.ProxyHeader != "" && c.Validate {
			want := ""
			for _, e := range strings.Split(ph, ",") {
				e = strings.TrimSpace(e)
				if a, err := netip.ParseAddr(e); err == nil && a.Zone() == "" {
					want = e
					break
				}
			}
			if want != "" && with.IP != want {
				return vk.Failf("%s: trusted peer: IP()=%q, want the first valid address %q of the ProxyHeader", ctx, with.IP, want)
			}
			if want == "" && with.IP != without.IP {
				return vk.Failf("%s: trusted peer without a valid forwarded address: IP()=%q, want the connection's %q", ctx, with.IP, without.IP)
			}
			v.NonTrivial = v.NonTrivial || hasPH
		}
		if c.ProxyHeader == "" && with.IP != without.IP {
			return vk.Failf("%s: no ProxyHeader configured but IP() changed: %q vs %q", ctx, with.IP, without.IP)
		}
	}
	if c.Validate {
		if _, err := netip.ParseAddr(with.IP); err != nil {
			return vk.Failf("%s: IP validation is on but IP()=%q is not a valid address", ctx, with.IP)
		}
	}
	if len(c.Proxies) > 0 {
		v.Classes = append(v.Classes, "has-proxy-list")
	}
	return v
}

// ---- generator ------------------------------------------------------------------------------------------

var peers = []string{"10.0.0.1", "10.1.2.3", "10.1.255.255", "10.2.0.0", "10.0.255.255", "127.0.0.1", "192.168.1.5", "169.254.3.4", "8.8.8.8", "8.8.9.0", "8.8.8.255",
	"::1", "2001:db8::1", "2001:db8:1::5", "2001:db8:2::", "fe80::1", "fc00::1", "::ffff:10.1.2.3", "::ffff:8.8.8.8", "::ffff:127.0.0.1", "172.16.0.1", "172.32.0.1", "100.64.0.1"}
var items = []string{"10.0.0.1", "10.1.0.0/16", "2001:db8::1", "2001:db8:1::/48", "8.8.8.0/24", "8.8.8.8", "::1", "0.0.0.0/0"}
var oddItems = []string{"::ffff:10.0.0.1", "2001:DB8:0:0:0:0:0:1", "2001:db8:0::1", "010.000.000.001"}

func genCase(t *rapid.T) Case {
	c := Case{Loopback: rapid.Bool().Draw(t, "lo"), Private: rapid.Bool().Draw(t, "pr"), LinkLocal: rapid.Bool().Draw(t, "ll"),
		ProxyHeader: rapid.SampledFrom([]string{"", "X-Forwarded-For", "X-Real-Ip", "X-Client-Ip"}).Draw(t, "ph"),
		Validate:    rapid.Bool().Draw(t, "val"), Host: rapid.SampledFrom([]string{"real.sub.test", "real.sub.test:8080", "localhost", "real.sub.test", ""}).Draw(t, "host"),
		TLS: rapid.IntRange(0, 3).Draw(t, "tls") == 0}
	pool := items[:len(items)-1]
	if rapid.IntRange(0, 19).Draw(t, "all") == 0 {
		pool = items
	}
	c.Proxies = rapid.SliceOfNDistinct(rapid.SampledFrom(pool), 0, 3, rapid.ID[string]).Draw(t, "proxies")
	if rapid.IntRange(0, 9).Draw(t, "odd") == 0 {
		c.Proxies = append(c.Proxies, rapid.SampledFrom(oddItems[:3]).Draw(t, "oddp"))
	}
	c.Peer = rapid.SampledFrom(peers).Draw(t, "peer")
	if rapid.IntRange(0, 3).Draw(t, "gencidr") == 0 {
		// a range of any prefix length (the usual allocation sizes and the extremes), and a peer at one of its edges:
		// the first or last address inside, or the nearest address outside
		base := netip.MustParseAddr(rapid.SampledFrom([]string{"10.1.2.3", "8.8.8.8", "203.0.113.77", "2001:db8:aa:bb:cc:dd:ee:ff", "2a01:4f8:1:2:3:4:5:6", "fd12:3456:789a::1"}).Draw(t, "cidrbase"))
		bits := rapid.SampledFrom([]int{8, 12, 16, 24, 31, 32}).Draw(t, "bits4")
		if base.Is6() {
			bits = rapid.SampledFrom([]int{16, 32, 32, 48, 56, 64, 96, 127, 128}).Draw(t, "bits6")
		}
		pf := netip.PrefixFrom(base, bits).Masked()
		c.Proxies = append(c.Proxies, pf.String())
		b := pf.Addr().AsSlice()
		last := append([]byte{}, b...)
		for i := bits; i < len(b)*8; i++ {
			last[i/8] |= 0x80 >> (i % 8)
		}
		out := append([]byte{}, b...)
		out[(bits-1)/8] ^= 0x80 >> ((bits - 1) % 8)
		mk := func(x []byte) string { a, _ := netip.AddrFromSlice(x); return a.String() }
		c.Peer = rapid.SampledFrom([]string{base.String(), mk(b), mk(last), mk(out), mk(last), base.String()}).Draw(t, "cidrpeer")
	} else if len(c.Proxies) > 0 && rapid.IntRange(0, 3).Draw(t, "peerlike") == 0 {
		// a peer whose address only resembles a configured one: the same 32 bits inside an IPv6 address that is not
		// the IPv4-mapped form, or a neighbour
		it := rapid.SampledFrom(c.Proxies).Draw(t, "like")
		if i := strings.Index(it, "/"); i != -1 {
			it = it[:i]
		}
		if a, err := netip.ParseAddr(it); err == nil && a.Unmap().Is4() {
			v4 := a.Unmap().String()
			c.Peer = rapid.SampledFrom([]string{"2001:db8::" + v4, "64:ff9b::" + v4, "::" + v4, "::fffe:" + v4, "fe80::" + v4, a.Unmap().Next().String()}).Draw(t, "likepeer")
		} else if err == nil {
			b := a.As16()
			hi, lo := b, b
			hi[0] ^= 0x10
			lo[15] ^= 0x02
			c.Peer = rapid.SampledFrom([]string{netip.AddrFrom16(hi).String(), netip.AddrFrom16(lo).String(), a.Next().String()}).Draw(t, "likepeer6")
		}
	}
	if rapid.IntRange(0, 3).Draw(t, "derived") == 0 {
		c.DerivedFrom = rapid.SliceOfNDistinct(rapid.SampledFrom(pool), 1, 3, rapid.ID[string]).Draw(t, "derivedFrom")
	}
	add := func(k string, vs []string) {
		if rapid.IntRange(0, 2).Draw(t, "has"+k) == 0 {
			c.Headers = append(c.Headers, [2]string{k, rapid.SampledFrom(vs).Draw(t, "v"+k)})
		}
	}
	ips := []string{"1.2.3.4", "junk, 5.6.7.8", "::1", "", "999.1.1.1", "1.2.3.4, 5.6.7.8", " 9.9.9.9 ", "2001:db8::9", "not-an-ip"}
	add("X-Forwarded-For", ips)
	add("X-Real-Ip", []string{"4.3.2.1", "nope"})
	add("X-Client-Ip", ips)
	add("X-Forwarded-Host", []string{"evil.test", "a.evil.test, b", "x.y.evil.test:99"})
	add("X-Forwarded-Proto", []string{"https", "http", "ftp,https", "https,http", "HTTPS", "Https,http"})
	add("X-Forwarded-Protocol", []string{"https", "wss"})
	add("X-Forwarded-Ssl", []string{"on", "off"})
	add("X-Url-Scheme", []string{"https", "wss", "HTTPS"})
	if len(c.Headers) > 1 && rapid.Bool().Draw(t, "shuffle") {
		c.Headers = rapid.Permutation(c.Headers).Draw(t, "order")
	}
	return c
}

var propTrust = vk.Register(&vk.Prop[Case]{
	Property: property, Name: "trust", Gen: genCase, Check: check, Quick: 40000, Thorough: 250000,
})

func TestTrust(t *testing.T) { propTrust.Run(t) }
func FuzzTrust(f *testing.F) { propTrust.Fuzz(f) }

// ---- sequences of requests from different peers on one app (pooled contexts) ----------------------------

type SeqStep struct {
	Peer    string
	Headers [][2]string
}

type SeqCase struct {
	Proxies                      []string
	Loopback, Private, LinkLocal bool
	ProxyHeader                  string
	Validate                     bool
	Steps                        []SeqStep
}

func seqApp(c SeqCase) *fiber.App {
	app := fiber.New(fiber.Config{TrustProxy: true, ProxyHeader: c.ProxyHeader, EnableIPValidation: c.Validate,
		TrustProxyConfig: fiber.TrustProxyConfig{Proxies: c.Proxies, Loopback: c.Loopback, Private: c.Private, LinkLocal: c.LinkLocal}})
	app.Get("/", func(ctx fiber.Ctx) error {
		return ctx.SendString(fmt.Sprintf("ip=%q host=%q hostname=%q scheme=%q secure=%v base=%q sub=%q trusted=%v", ctx.IP(), ctx.Host(), ctx.Hostname(), ctx.Scheme(), ctx.Secure(), ctx.BaseURL(), ctx.Subdomains(), ctx.IsProxyTrusted()))
	})
	return app
}

func bodyOf(out []byte) string {
	s := string(out)
	if i := strings.Index(s, "\r\n\r\n"); i >= 0 {
		return s[:12] + " " + s[i+4:]
	}
	return s
}

// checkSeq: every request served by an app that already served other peers (same pooled fasthttp and fiber contexts)
// is answered exactly like the same request on a fresh app - the trust decision never carries over between connections.
func checkSeq(c SeqCase) vk.Verdict {
	shared := seqApp(c)
	trustedSeen, untrustedSeen := false, false
	for i, st := range c.Steps {
		var hdr [][2]string
		hdr = append(hdr, [2]string{"Host", "real.sub.test"})
		hdr = append(hdr, st.Headers...)
		raw := vk.Req("GET", "/", hdr, nil)
		addr := &net.TCPAddr{IP: net.ParseIP(st.Peer), Port: 4000 + i}
		got, err := vk.WireAddr(shared, raw, addr)
		if err != nil {
			return vk.Failf("step %d: %v", i, err)
		}
		want, err := vk.WireAddr(seqApp(c), raw, addr)
		if err != nil {
			return vk.Failf("step %d (fresh app): %v", i, err)
		}
		if bodyOf(got) != bodyOf(want) {
			return vk.Failf("step %d: peer %s with headers %q on an app that served %+v before:\n got  %s\n want %s (fresh app)\nconfig: proxies %v lo=%v priv=%v ll=%v header %q validate=%v",
				i, st.Peer, st.Headers, c.Steps[:i], bodyOf(got), bodyOf(want), c.Proxies, c.Loopback, c.Private, c.LinkLocal, c.ProxyHeader, c.Validate)
		}
		if strings.Contains(bodyOf(want), "trusted=true") {
			trustedSeen = true
		} else {
			untrustedSeen = true
		}
	}
	return vk.Verdict{NonTrivial: trustedSeen && untrustedSeen && len(c.Steps) >= 2, Classes: []string{fmt.Sprintf("mixed-trust:%v", trustedSeen && untrustedSeen)}}
}

var propSeq = vk.Register(&vk.Prop[SeqCase]{Property: property, Name: "sequence", Check: checkSeq, Quick: 6000, Thorough: 40000,
	Gen: func(t *rapid.T) SeqCase {
		b := genCase(t)
		c := SeqCase{Proxies: b.Proxies, Loopback: b.Loopback, Private: b.Private, LinkLocal: b.LinkLocal, ProxyHeader: b.ProxyHeader, Validate: b.Validate}
		n := rapid.IntRange(2, 5).Draw(t, "nsteps")
		for i := 0; i < n; i++ {
			s := genCase(t)
			c.Steps = append(c.Steps, SeqStep{Peer: s.Peer, Headers: s.Headers})
		}
		return c
	}})

func TestSequence(t *testing.T) { propSeq.Run(t) }
